//! A library for reading/writing [Compound File Binary](
//! https://en.wikipedia.org/wiki/Compound_File_Binary_Format) (structured
//! storage) files.  See [MS-CFB](
//! https://msdn.microsoft.com/en-us/library/dd942138.aspx) for the format
//! specification.
//!
//! A Compound File Binary (CFB) file, also called a *structured storage file*
//! or simply a *compound file*, is a bit like a simple file system within a
//! file.  A compound file contains a tree of *storage* objects
//! (i.e. directories), each of which can contain *stream* objects (i.e. files)
//! or other storage objects.  The format is designed to allow reasonably
//! efficient in-place mutation and resizing of these stream and storage
//! objects, without having to completely rewrite the CFB file on disk.
//!
//! # Example usage
//!
//! ```no_run
//! use cfb;
//! use std::io::{Read, Seek, SeekFrom, Write};
//!
//! // Open an existing compound file in read-write mode.
//! let mut comp = cfb::open_rw("path/to/cfb/file").unwrap();
//!
//! // Read in all the data from one of the streams in that compound file.
//! let data = {
//!     let mut stream = comp.open_stream("/foo/bar").unwrap();
//!     let mut buffer = Vec::new();
//!     stream.read_to_end(&mut buffer).unwrap();
//!     buffer
//! };
//!
//! // Append that data to the end of another stream in the same file.
//! {
//!     let mut stream = comp.open_stream("/baz").unwrap();
//!     stream.seek(SeekFrom::End(0)).unwrap();
//!     stream.write_all(&data).unwrap();
//! }
//!
//! // Now create a new compound file, and create a new stream with the data.
//! let mut comp2 = cfb::create("some/other/path").unwrap();
//! comp2.create_storage("/spam/").unwrap();
//! let mut stream = comp2.create_stream("/spam/eggs").unwrap();
//! stream.write_all(&data).unwrap();
//! ```

#![warn(missing_docs)]

use std::fmt;
use std::fs;
use std::io::{self, Read, Seek, SeekFrom, Write};
use std::mem::size_of;
use std::path::{Path, PathBuf};
use std::sync::{Arc, RwLock, RwLockReadGuard, RwLockWriteGuard};

use fnv::FnvHashSet;
use uuid::Uuid;

use crate::internal::consts;
use crate::internal::DEFAULT_STREAM_MAX_BUFFER_SIZE;
use crate::internal::{
    Allocator, DirEntry, Directory, EntriesOrder, Header, MiniAllocator,
    ObjType, SectorInit, Sectors, Timestamp, Validation,
};
pub use crate::internal::{Entries, Entry, Stream, Version};

#[macro_use]
mod internal;

//===========================================================================//

/// Opens an existing compound file at the given path in read-only mode.
pub fn open<P: AsRef<Path>>(path: P) -> io::Result<CompoundFile<fs::File>> {
    OpenOptions::new().open(path)
}

/// Opens an existing compound file at the given path in read-write mode.
pub fn open_rw<P: AsRef<Path>>(path: P) -> io::Result<CompoundFile<fs::File>> {
    OpenOptions::new().open_rw(path)
}

/// Creates a new compound file with no contents at the given path.
///
/// The returned `CompoundFile` object will be both readable and writable.  If
/// a file already exists at the given path, this will overwrite it.
pub fn create<P: AsRef<Path>>(path: P) -> io::Result<CompoundFile<fs::File>> {
    OpenOptions::new().create(path)
}

//===========================================================================//

/// Options for opening or creating a compound file.
pub struct OpenOptions {
    pub(crate) max_buffer_size: usize,
    pub(crate) validation: Validation,
}

impl OpenOptions {
    /// Creates a new `OpenOptions` with default settings.
    pub fn new() -> Self {
        OpenOptions::default()
    }

    /// Sets the maximum size of a stream's internal buffer.
    ///
    /// The buffer grows dynamically up to this limit. Larger limits can improve
    /// throughput for large streams, while smaller limits reduce peak memory
    /// usage. Values below the internal minimum are clamped up to that minimum.
    pub fn max_buffer_size(mut self, size: usize) -> Self {
        self.max_buffer_size = size;
        self
    }

    /// Any violation of the CFB spec will be treated as an error when parsing.
    pub fn strict(mut self) -> Self {
        self.validation = Validation::Strict;
        self
    }

    /// Opens an existing compound file at the given path in read-only mode.
    pub fn open<P: AsRef<Path>>(
        self,
        path: P,
    ) -> io::Result<CompoundFile<fs::File>> {
        self.open_with(fs::File::open(path)?)
    }

    /// Opens an existing compound file at the given path in read-write mode.
    pub fn open_rw<P: AsRef<Path>>(
        self,
        path: P,
    ) -> io::Result<CompoundFile<fs::File>> {
        let file = fs::OpenOptions::new().read(true).write(true).open(path)?;
        self.open_with(file)
    }

    /// Creates a new compound file with no contents at the given path.
    ///
    /// The returned `CompoundFile` object will be both readable and writable.
    /// If a file already exists at the given path, this will overwrite it.
    pub fn create<P: AsRef<Path>>(
        self,
        path: P,
    ) -> io::Result<CompoundFile<fs::File>> {
        let file = fs::OpenOptions::new()
            .read(true)
            .write(true)
            .create(true)
            .truncate(true)
            .open(path)?;
        self.create_with(file)
    }

    /// Opens an existing compound file using the underlying reader.
    pub fn open_with<F: Read + Seek>(
        self,
        inner: F,
    ) -> io::Result<CompoundFile<F>> {
        CompoundFile::open_internal(
            inner,
            self.validation,
            self.max_buffer_size,
        )
    }

    /// Creates a new compound file with no contents using the underlying writer.
    pub fn create_with<F: Read + Write + Seek>(
        self,
        inner: F,
    ) -> io::Result<CompoundFile<F>> {
        CompoundFile::create_with_version_and_options(
            Version::V4,
            inner,
            self.max_buffer_size,
        )
    }
}

impl Default for OpenOptions {
    fn default() -> Self {
        OpenOptions {
            max_buffer_size: DEFAULT_STREAM_MAX_BUFFER_SIZE,
            validation: Validation::Permissive,
        }
    }
}

//===========================================================================//

/// A compound file, backed by an underlying reader/writer (such as a
/// [`File`](https://doc.rust-lang.org/std/fs/struct.File.html) or
/// [`Cursor`](https://doc.rust-lang.org/std/io/struct.Cursor.html)).
pub struct CompoundFile<F> {
    minialloc: Arc<RwLock<MiniAllocator<F>>>,
    max_buffer_size: usize,
}

impl<F> CompoundFile<F> {
    fn minialloc(&self) -> RwLockReadGuard<'_, MiniAllocator<F>> {
        self.minialloc.read().unwrap()
    }

    fn minialloc_mut(&mut self) -> RwLockWriteGuard<'_, MiniAllocator<F>> {
        self.minialloc.write().unwrap()
    }

    /// Returns the CFB format version used for this compound file.
    pub fn version(&self) -> Version {
        self.minialloc().version()
    }

    fn stream_id_for_name_chain(&self, names: &[&str]) -> Option<u32> {
        self.minialloc().stream_id_for_name_chain(names)
    }

    /// Returns information about the root storage object.  This is equivalent
    /// to `self.entry("/").unwrap()` (but always succeeds).
    pub fn root_entry(&self) -> Entry {
        Entry::new(self.minialloc().root_dir_entry(), PathBuf::from("/"))
    }

    /// Given a path within the compound file, get information about that
    /// stream or storage object.
    pub fn entry<P: AsRef<Path>>(&self, path: P) -> io::Result<Entry> {
        self.entry_with_path(path.as_ref())
    }

    fn entry_with_path(&self, path: &Path) -> io::Result<Entry> {
        let names = internal::path::name_chain_from_path(path)?;
        let path = internal::path::path_from_name_chain(&names);
        let stream_id = match self.stream_id_for_name_chain(&names) {
            Some(stream_id) => stream_id,
            None => not_found!("No such object: {:?}", path),
        };
        Ok(Entry::new(self.minialloc().dir_entry(stream_id), path))
    }

    /// Returns an iterator over the entries within the root storage object.
    /// This is equivalent to `self.read_storage("/").unwrap()` (but always
    /// succeeds).
    pub fn read_root_storage(&self) -> Entries<'_, F> {
        let start = self.minialloc().root_dir_entry().child;
        Entries::new(
            EntriesOrder::Nonrecursive,
            &self.minialloc,
            internal::path::path_from_name_chain(&[]),
            start,
        )
    }

    /// Returns an iterator over the entries within a storage object.
    pub fn read_storage<P: AsRef<Path>>(
        &self,
        path: P,
    ) -> io::Result<Entries<'_, F>> {
        self.read_storage_with_path(path.as_ref())
    }

    fn read_storage_with_path(
        &self,
        path: &Path,
    ) -> io::Result<Entries<'_, F>> {
        let names = internal::path::name_chain_from_path(path)?;
        let path = internal::path::path_from_name_chain(&names);
        let stream_id = match self.stream_id_for_name_chain(&names) {
            Some(stream_id) => stream_id,
            None => not_found!("No such storage: {:?}", path),
        };
        let start = {
            let minialloc = self.minialloc();
            let dir_entry = minialloc.dir_entry(stream_id);
            if dir_entry.obj_type == ObjType::Stream {
                invalid_input!("Not a storage: {:?}", path);
            }
            debug_assert!(
                dir_entry.obj_type == ObjType::Storage
                    || dir_entry.obj_type == ObjType::Root
            );
            dir_entry.child
        };
        Ok(Entries::new(
            EntriesOrder::Nonrecursive,
            &self.minialloc,
            path,
            start,
        ))
    }

    /// Returns an iterator over all entries within the compound file, starting
    /// from and including the root entry.  The iterator walks the storage tree
    /// in a preorder traversal.  This is equivalent to
    /// `self.walk_storage("/").unwrap()` (but always succeeds).
    pub fn walk(&self) -> Entries<'_, F> {
        Entries::new(
            EntriesOrder::Preorder,
            &self.minialloc,
            internal::path::path_from_name_chain(&[]),
            consts::ROOT_STREAM_ID,
        )
    }

    /// Returns an iterator over all entries under a storage subtree, including
    /// the given path itself.  The iterator walks the storage tree in a
    /// preorder traversal.
    pub fn walk_storage<P: AsRef<Path>>(
        &self,
        path: P,
    ) -> io::Result<Entries<'_, F>> {
        self.walk_storage_with_path(path.as_ref())
    }

    fn walk_storage_with_path(
        &self,
        path: &Path,
    ) -> io::Result<Entries<'_, F>> {
        let mut names = internal::path::name_chain_from_path(path)?;
        let stream_id = match self.stream_id_for_name_chain(&names) {
            Some(stream_id) => stream_id,
            None => not_found!(
                "No such object: {:?}",
                internal::path::path_from_name_chain(&names)
            ),
        };
        names.pop();
        let parent_path = internal::path::path_from_name_chain(&names);
        Ok(Entries::new(
            EntriesOrder::Preorder,
            &self.minialloc,
            parent_path,
            stream_id,
        ))
    }

    /// Returns true if there is an existing stream or storage at the given
    /// path, or false if there is nothing at that path.
    pub fn exists<P: AsRef<Path>>(&self, path: P) -> bool {
        match internal::path::name_chain_from_path(path.as_ref()) {
            Ok(names) => self.stream_id_for_name_chain(&names).is_some(),
            Err(_) => false,
        }
    }

    /// Returns true if there is an existing stream at the given path, or false
    /// if there is a storage or nothing at that path.
    pub fn is_stream<P: AsRef<Path>>(&self, path: P) -> bool {
        match internal::path::name_chain_from_path(path.as_ref()) {
            Ok(names) => match self.stream_id_for_name_chain(&names) {
                Some(stream_id) => {
                    self.minialloc().dir_entry(stream_id).obj_type
                        == ObjType::Stream
                }
                None => false,
            },
            Err(_) => false,
        }
    }

    /// Returns true if there is an existing storage at the given path, or
    /// false if there is a stream or nothing at that path.
    pub fn is_storage<P: AsRef<Path>>(&self, path: P) -> bool {
        match internal::path::name_chain_from_path(path.as_ref()) {
            Ok(names) => match self.stream_id_for_name_chain(&names) {
                Some(stream_id) => {
                    self.minialloc().dir_entry(stream_id).obj_type
                        != ObjType::Stream
                }
                None => false,
            },
            Err(_) => false,
        }
    }

    // TODO: pub fn copy_stream

    // TODO: pub fn rename

    /// Consumes the `CompoundFile`, returning the underlying reader/writer.
    pub fn into_inner(self) -> F {
        // We only ever retain Weak copies of the CompoundFile's minialloc Rc
        // (e.g. in Stream structs), so the Rc::try_unwrap() should always
        // succeed.
        match Arc::try_unwrap(self.minialloc) {
            Ok(ref_cell) => ref_cell.into_inner().unwrap().into_inner(),
            Err(_) => unreachable!(),
        }
    }
}

impl<F: Seek> CompoundFile<F> {
    /// Opens an existing stream in the compound file for reading and/or
    /// writing (depending on what the underlying file supports).
    pub fn open_stream<P: AsRef<Path>>(
        &mut self,
        path: P,
    ) -> io::Result<Stream<F>> {
        self.open_stream_with_path(path.as_ref())
    }

    fn open_stream_with_path(&mut self, path: &Path) -> io::Result<Stream<F>> {
        let names = internal::path::name_chain_from_path(path)?;
        let path = internal::path::path_from_name_chain(&names);
        let stream_id = match self.stream_id_for_name_chain(&names) {
            Some(stream_id) => stream_id,
            None => not_found!("No such stream: {:?}", path),
        };
        if self.minialloc().dir_entry(stream_id).obj_type != ObjType::Stream {
            invalid_input!("Not a stream: {:?}", path);
        }
        Ok(Stream::new(&self.minialloc, stream_id, self.max_buffer_size))
    }
}

impl<F: Read + Seek> CompoundFile<F> {
    /// Opens an existing compound file, using the underlying reader.  If the
    /// underlying reader also supports the `Write` trait, then the
    /// `CompoundFile` object will be writable as well.
    pub fn open(inner: F) -> io::Result<CompoundFile<F>> {
        OpenOptions::new().open_with(inner)
    }

    /// Like `open()`, but is stricter when parsing and will return an error if
    /// the file violates the CFB spec in any way (which many CFB files in the
    /// wild do).  This is mainly useful for validating a CFB file or
    /// implementation (such as this crate itself) to help ensure compatibility
    /// with other readers.
    pub fn open_strict(inner: F) -> io::Result<CompoundFile<F>> {
        OpenOptions::new().strict().open_with(inner)
    }

    fn open_internal(
        mut inner: F,
        validation: Validation,
        max_buffer_size: usize,
    ) -> io::Result<CompoundFile<F>> {
        let inner_len = inner.seek(SeekFrom::End(0))?;
        if inner_len < consts::HEADER_LEN as u64 {
            invalid_data!(
                "Invalid CFB file ({} bytes is too small)",
                inner_len
            );
        }
        inner.seek(SeekFrom::Start(0))?;

        // 2.2 Compound File Header
        let header = Header::read_from(&mut inner, validation)?;
        // Major Version
        let sector_len = header.version.sector_len();
        if inner_len
            > (consts::MAX_REGULAR_SECTOR as u64 + 1) * (sector_len as u64)
        {
            invalid_data!(
                "Invalid CFB file ({} bytes is too large)",
                inner_len
            );
        }

        if inner_len < header.version.sector_len() as u64 {
            invalid_data!(
                "Invalid CFB file (length of {} < sector length of {})",
                inner_len,
                header.version.sector_len()
            );
        }
        let mut sectors = Sectors::new(header.version, inner_len, inner);
        let num_sectors = sectors.num_sectors();

        // Read in DIFAT.
        let mut difat = Vec::<u32>::new();
        difat.extend_from_slice(&header.initial_difat_entries);
        let mut seen_sector_ids = FnvHashSet::default();
        let mut difat_sector_ids = Vec::new();
        let mut current_difat_sector = header.first_difat_sector;
        while current_difat_sector != consts::END_OF_CHAIN
            && current_difat_sector != consts::FREE_SECTOR
        {
            if current_difat_sector > consts::MAX_REGULAR_SECTOR {
                invalid_data!(
                    "DIFAT chain includes invalid sector index {}",
                    current_difat_sector
                );
            } else if current_difat_sector >= num_sectors {
                invalid_data!(
                    "DIFAT chain includes sector index {}, but sector count \
                     is only {}",
                    current_difat_sector,
                    num_sectors
                );
            }
            if seen_sector_ids.contains(&current_difat_sector) {
                invalid_data!(
                    "DIFAT chain includes duplicate sector index {}",
                    current_difat_sector,
                );
            }
            seen_sector_ids.insert(current_difat_sector);
            difat_sector_ids.push(current_difat_sector);
            let mut sector = sectors.seek_to_sector(current_difat_sector)?;
            for _ in 0..(sector_len / size_of::<u32>() - 1) {
                let next = sector.read_le_u32()?;
                if next != consts::FREE_SECTOR
                    && next > consts::MAX_REGULAR_SECTOR
                {
                    invalid_data!(
                        "DIFAT refers to invalid sector index {}",
                        next
                    );
                }
                difat.push(next);
            }
            current_difat_sector = sector.read_le_u32()?;
            if validation.is_strict()
                && current_difat_sector == consts::FREE_SECTOR
            {
                invalid_data!(
                    "DIFAT chain must terminate with {}, not {}",
                    consts::END_OF_CHAIN,
                    consts::FREE_SECTOR
                );
            }
        }
        if validation.is_strict()
            && header.num_difat_sectors as usize != difat_sector_ids.len()
        {
            invalid_data!(
                "Incorrect DIFAT chain length (header says {}, actual is {})",
                header.num_difat_sectors,
                difat_sector_ids.len()
            );
        }
        // The DIFAT should be padded with FREE_SECTOR, but DIFAT sectors
        // may instead instead be incorrectly zero padded (see
        // https://github.com/mdsteele/rust-cfb/issues/41).
        // In case num_fat_sectors is not reliable, only remove zeroes,
        // and don't remove sectors from the header DIFAT.
        if !validation.is_strict() {
            while difat.len() > consts::NUM_DIFAT_ENTRIES_IN_HEADER
                && difat.len() > header.num_fat_sectors as usize
                && difat.last() == Some(&0)
            {
                difat.pop();
            }
        }
        while difat.last() == Some(&consts::FREE_SECTOR) {
            difat.pop();
        }
        if validation.is_strict()
            && header.num_fat_sectors as usize != difat.len()
        {
            invalid_data!(
                "Incorrect number of FAT sectors (header says {}, DIFAT says \
                 {})",
                header.num_fat_sectors,
                difat.len()
            );
        }

        // Read in FAT.
        let mut fat = Vec::<u32>::new();
        for &sector_index in difat.iter() {
            if sector_index >= num_sectors {
                invalid_data!(
                    "DIFAT refers to sector {}, but sector count is only {}",
                    sector_index,
                    num_sectors
                );
            }
            let mut sector = sectors.seek_to_sector(sector_index)?;
            for _ in 0..(sector_len / size_of::<u32>()) {
                fat.push(sector.read_le_u32()?);
            }
        }
        // If the number of sectors in the file is not a multiple of the number
        // of FAT entries per sector, then the last FAT sector must be padded
        // with FREE_SECTOR entries (see MS-CFB section 2.3).  However, some
        // CFB implementations incorrectly pad the last FAT sector with zeros
        // (see https://github.com/mdsteele/rust-cfb/issues/8), so we allow
        // this under Permissive validation.  Since zero is normally a
        // meaningful FAT entry (referring to sector 0), we only want to strip
        // zeros from the end of the FAT if they are beyond the number of
        // sectors in the file.
        // Files have been seen with erroneous other types of sectors beyond
        // EOF, so strip those as well.
        if !validation.is_strict() {
            while fat.len() > num_sectors as usize {
                if fat.last() == Some(&0)
                    || fat.last() == Some(&consts::DIFAT_SECTOR)
                    || fat.last() == Some(&consts::FAT_SECTOR)
                    || fat.last() == Some(&consts::FREE_SECTOR)
                {
                    fat.pop();
                } else {
                    break;
                }
            }
        }
        // Strip FREE_SECTOR entries from the end of the FAT.
        while fat.len() > num_sectors as usize
            && fat.last() == Some(&consts::FREE_SECTOR)
        {
            fat.pop();
        }
        while fat.len() < num_sectors as usize {
            fat.push(consts::FREE_SECTOR);
        }

        let mut allocator =
            Allocator::new(sectors, difat_sector_ids, difat, fat, validation)?;

        // Read in directory.
        let mut dir_entries = Vec::<DirEntry>::new();
        let mut seen_dir_sectors = FnvHashSet::default();
        let mut current_dir_sector = header.first_dir_sector;
        let mut dir_sector_count = 1;
        while current_dir_sector != consts::END_OF_CHAIN {
            if validation.is_strict()
                && header.version == Version::V4
                && dir_sector_count > header.num_dir_sectors
            {
                invalid_data!(
                    "Directory chain includes at least {} sectors which is greater than header num_dir_sectors {}",
                    dir_sector_count,
                    header.num_dir_sectors
                );
            }
            if current_dir_sector > consts::MAX_REGULAR_SECTOR {
                invalid_data!(
                    "Directory chain includes invalid sector index {}",
                    current_dir_sector
                );
            } else if current_dir_sector >= num_sectors {
                invalid_data!(
                    "Directory chain includes sector index {}, but sector \
                     count is only {}",
                    current_dir_sector,
                    num_sectors
                );
            }
            if seen_dir_sectors.contains(&current_dir_sector) {
                invalid_data!(
                    "Directory chain includes duplicate sector index {}",
                    current_dir_sector,
                );
            }
            seen_dir_sectors.insert(current_dir_sector);
            {
                let mut sector =
                    allocator.seek_to_sector(current_dir_sector)?;
                for _ in 0..header.version.dir_entries_per_sector() {
                    dir_entries.push(DirEntry::read_from(
                        &mut sector,
                        header.version,
                        validation,
                    )?);
                }
            }
            current_dir_sector = allocator.next(current_dir_sector)?;
            dir_sector_count += 1;
        }

        let mut directory = Directory::new(
            allocator,
            dir_entries,
            header.first_dir_sector,
            validation,
        )?;

        // Read in MiniFAT.
        let minifat = {
            let mut chain = directory
                .open_chain(header.first_minifat_sector, SectorInit::Fat)?;
            if validation.is_strict()
                && header.num_minifat_sectors as usize != chain.num_sectors()
            {
                invalid_data!(
                    "Incorrect MiniFAT chain length (header says {}, actual \
                     is {})",
                    header.num_minifat_sectors,
                    chain.num_sectors()
                );
            }
            let num_minifat_entries = (chain.len() / 4) as usize;
            let mut minifat = Vec::<u32>::with_capacity(num_minifat_entries);
            for _ in 0..num_minifat_entries {
                minifat.push(chain.read_le_u32()?);
            }
            while minifat.last() == Some(&consts::FREE_SECTOR) {
                minifat.pop();
            }
            minifat
        };

        let minialloc = MiniAllocator::new(
            directory,
            minifat,
            header.first_minifat_sector,
            validation,
        )?;

        Ok(CompoundFile {
            minialloc: Arc::new(RwLock::new(minialloc)),
            max_buffer_size,
        })
    }
}

impl<F: Read + Write + Seek> CompoundFile<F> {
    /// Creates a new compound file with no contents, using the underlying
    /// reader/writer.  The reader/writer should be initially empty.
    pub fn create(inner: F) -> io::Result<CompoundFile<F>> {
        OpenOptions::new().create_with(inner)
    }

    /// Creates a new compound file of the given version with no contents,
    /// using the underlying writer.  The writer should be initially empty.
    pub fn create_with_version(
        version: Version,
        inner: F,
    ) -> io::Result<CompoundFile<F>> {
        CompoundFile::create_with_version_and_options(
            version,
            inner,
            DEFAULT_STREAM_MAX_BUFFER_SIZE,
        )
    }

    fn create_with_version_and_options(
        version: Version,
        mut inner: F,
        max_buffer_size: usize,
    ) -> io::Result<CompoundFile<F>> {
        let mut header = Header {
            version,
            // 2.2 requires this to be zero in V3
            num_dir_sectors: if version == Version::V3 { 0 } else { 1 },
            num_fat_sectors: 1,
            first_dir_sector: 1,
            first_minifat_sector: consts::END_OF_CHAIN,
            num_minifat_sectors: 0,
            first_difat_sector: consts::END_OF_CHAIN,
            num_difat_sectors: 0,
            initial_difat_entries: [consts::FREE_SECTOR;
                consts::NUM_DIFAT_ENTRIES_IN_HEADER],
        };
        header.initial_difat_entries[0] = 0;
        header.write_to(&mut inner)?;

        // Pad the header with zeroes so it's the length of a sector.
        let sector_len = version.sector_len();
        debug_assert!(sector_len >= consts::HEADER_LEN);
        if sector_len > consts::HEADER_LEN {
            inner.write_all(&vec![0; sector_len - consts::HEADER_LEN])?;
        }

        // Write FAT sector:
        let fat: Vec<u32> = vec![consts::FAT_SECTOR, consts::END_OF_CHAIN];
        for &entry in fat.iter() {
            inner.write_le_u32(entry)?;
        }
        for _ in fat.len()..(sector_len / size_of::<u32>()) {
            inner.write_le_u32(consts::FREE_SECTOR)?;
        }
        let difat: Vec<u32> = vec![0];
        let difat_sector_ids: Vec<u32> = vec![];

        // Write directory sector:
        let root_dir_entry = DirEntry::empty_root_entry();
        root_dir_entry.write_to(&mut inner)?;
        for _ in 1..version.dir_entries_per_sector() {
            DirEntry::unallocated().write_to(&mut inner)?;
        }

        let sectors = Sectors::new(version, 3 * sector_len as u64, inner);
        let allocator = Allocator::new(
            sectors,
            difat_sector_ids,
            difat,
            fat,
            Validation::Strict,
        )?;
        let directory = Directory::new(
            allocator,
            vec![root_dir_entry],
            1,
            Validation::Strict,
        )?;
        let minialloc = MiniAllocator::new(
            directory,
            vec![],
            consts::END_OF_CHAIN,
            Validation::Strict,
        )?;
        Ok(CompoundFile {
            minialloc: Arc::new(RwLock::new(minialloc)),
            max_buffer_size,
        })
    }

    /// Creates a new, empty storage object (i.e. "directory") at the provided
    /// path.  The parent storage object must already exist.
    pub fn create_storage<P: AsRef<Path>>(
        &mut self,
        path: P,
    ) -> io::Result<()> {
        self.create_storage_with_path(path.as_ref())
    }

    fn create_storage_with_path(&mut self, path: &Path) -> io::Result<()> {
        let mut names = internal::path::name_chain_from_path(path)?;
        if let Some(stream_id) = self.stream_id_for_name_chain(&names) {
            let path = internal::path::path_from_name_chain(&names);
            if self.minialloc().dir_entry(stream_id).obj_type
                != ObjType::Stream
            {
                already_exists!(
                    "Cannot create storage at {:?} because a \
                                 storage already exists there",
                    path
                );
            } else {
                already_exists!(
                    "Cannot create storage at {:?} because a \
                                 stream already exists there",
                    path
                );
            }
        }
        // If names is empty, that means we're trying to create the root.  But
        // the root always already exists and will have been rejected above.
        debug_assert!(!names.is_empty());
        let name = names.pop().unwrap();
        internal::path::validate_name(name)?;
        let parent_id = match self.stream_id_for_name_chain(&names) {
            Some(stream_id) => stream_id,
            None => not_found!("Parent storage doesn't exist"),
        };
        if self.minialloc().dir_entry(parent_id).obj_type == ObjType::Stream {
            invalid_input!(
                "Parent is a stream, not a storage: {:?}",
                internal::path::path_from_name_chain(&names)
            );
        }
        self.minialloc_mut().insert_dir_entry(
            parent_id,
            name,
            ObjType::Storage,
        )?;
        Ok(())
    }

    /// Recursively creates a storage and all of its parent storages if they
    /// are missing.
    pub fn create_storage_all<P: AsRef<Path>>(
        &mut self,
        path: P,
    ) -> io::Result<()> {
        self.create_storage_all_with_path(path.as_ref())
    }

    fn create_storage_all_with_path(&mut self, path: &Path) -> io::Result<()> {
        let names = internal::path::name_chain_from_path(path)?;
        // Validate every name up front, so that a path with an invalid
        // component is rejected before any of its parents gets created.
        for name in names.iter() {
            internal::path::validate_name(name)?;
        }
        for length in 1..(names.len() + 1) {
            let prefix_path =
                internal::path::path_from_name_chain(&names[..length]);
            if self.is_storage(&prefix_path) {
                continue;
            }
            self.create_storage_with_path(&prefix_path)?;
        }
        Ok(())
    }

    /// Removes the storage object at the provided path.  The storage object
    /// must exist and have no children.
    pub fn remove_storage<P: AsRef<Path>>(
        &mut self,
        path: P,
    ) -> io::Result<()> {
        self.remove_storage_with_path(path.as_ref())
    }

    fn remove_storage_with_path(&mut self, path: &Path) -> io::Result<()> {
        let mut names = internal::path::name_chain_from_path(path)?;
        let stream_id = match self.stream_id_for_name_chain(&names) {
            Some(parent_id) => parent_id,
            None => not_found!("No such storage: {:?}", path),
        };
        {
            let minialloc = self.minialloc();
            let dir_entry = minialloc.dir_entry(stream_id);
            if dir_entry.obj_type == ObjType::Root {
                invalid_input!("Cannot remove the root storage object");
            }
            if dir_entry.obj_type == ObjType::Stream {
                invalid_input!("Not a storage: {:?}", path);
            }
            debug_assert_eq!(dir_entry.obj_type, ObjType::Storage);
            if dir_entry.child != consts::NO_STREAM {
                invalid_input!("Storage is not empty: {:?}", path);
            }
        }
        debug_assert!(!names.is_empty());
        let name = names.pop().unwrap();
        let parent_id = self.stream_id_for_name_chain(&names).unwrap();
        self.minialloc_mut().remove_dir_entry(parent_id, name)?;
        Ok(())
    }

    /// Recursively removes a storage and all of its children.  If called on
    /// the root storage, recursively removes all of its children but not the
    /// root storage itself (which cannot be removed).
    pub fn remove_storage_all<P: AsRef<Path>>(
        &mut self,
        path: P,
    ) -> io::Result<()> {
        self.remove_storage_all_with_path(path.as_ref())
    }

    fn remove_storage_all_with_path(&mut self, path: &Path) -> io::Result<()> {
        let mut stack = self.walk_storage(path)?.collect::<Vec<Entry>>();
        while let Some(entry) = stack.pop() {
            if entry.is_stream() {
                self.remove_stream_with_path(entry.path())?;
            } else if !entry.is_root() {
                self.remove_storage_with_path(entry.path())?;
            }
        }
        Ok(())
    }

    /// Sets the CLSID for the storage object at the provided path.  (To get
    /// the current CLSID for a storage object, use
    /// `self.entry(path)?.clsid()`.)
    pub fn set_storage_clsid<P: AsRef<Path>>(
        &mut self,
        path: P,
        clsid: Uuid,
    ) -> io::Result<()> {
        self.set_storage_clsid_with_path(path.as_ref(), clsid)
    }

    fn set_storage_clsid_with_path(
        &mut self,
        path: &Path,
        clsid: Uuid,
    ) -> io::Result<()> {
        let names = internal::path::name_chain_from_path(path)?;
        let stream_id = match self.stream_id_for_name_chain(&names) {
            Some(stream_id) => stream_id,
            None => not_found!(
                "No such storage: {:?}",
                internal::path::path_from_name_chain(&names)
            ),
        };
        let mut minialloc = self.minialloc_mut();
        if minialloc.dir_entry(stream_id).obj_type == ObjType::Stream {
            invalid_input!(
                "Not a storage: {:?}",
                internal::path::path_from_name_chain(&names)
            );
        }
        minialloc.with_dir_entry_mut(stream_id, |dir_entry| {
            dir_entry.clsid = clsid;
        })
    }

    /// Creates and returns a new, empty stream object at the provided path.
    /// If a stream already exists at that path, it will be replaced by the new
    /// stream.  The parent storage object must already exist.
    pub fn create_stream<P: AsRef<Path>>(
        &mut self,
        path: P,
    ) -> io::Result<Stream<F>> {
        self.create_stream_with_path(path.as_ref(), true)
    }

    /// Creates and returns a new, empty stream object at the provided path.
    /// Returns an error if a stream already exists at that path.  The parent
    /// storage object must already exist.
    pub fn create_new_stream<P: AsRef<Path>>(
        &mut self,
        path: P,
    ) -> io::Result<Stream<F>> {
        self.create_stream_with_path(path.as_ref(), false)
    }

    fn create_stream_with_path(
        &mut self,
        path: &Path,
        overwrite: bool,
    ) -> io::Result<Stream<F>> {
        let mut names = internal::path::name_chain_from_path(path)?;
        if let Some(stream_id) = self.stream_id_for_name_chain(&names) {
            if self.minialloc().dir_entry(stream_id).obj_type
                != ObjType::Stream
            {
                already_exists!(
                    "Cannot create stream at {:?} because a \
                                 storage already exists there",
                    internal::path::path_from_name_chain(&names)
                );
            } else if !overwrite {
                already_exists!(
                    "Cannot create new stream at {:?} because a \
                                 stream already exists there",
                    internal::path::path_from_name_chain(&names)
                );
            } else {
                let mut stream = Stream::new(
                    &self.minialloc,
                    stream_id,
                    self.max_buffer_size,
                );
                stream.set_len(0)?;
                return Ok(stream);
            }
        }
        // If names is empty, that means we're trying to create the root.  But
        // the root always already exists and will have been rejected above.
        debug_assert!(!names.is_empty());
        let name = names.pop().unwrap();
        internal::path::validate_name(name)?;
        let parent_id = match self.stream_id_for_name_chain(&names) {
            Some(stream_id) => stream_id,
            None => not_found!("Parent storage doesn't exist"),
        };
        if self.minialloc().dir_entry(parent_id).obj_type == ObjType::Stream {
            invalid_input!(
                "Parent is a stream, not a storage: {:?}",
                internal::path::path_from_name_chain(&names)
            );
        }
        let new_stream_id = self.minialloc_mut().insert_dir_entry(
            parent_id,
            name,
            ObjType::Stream,
        )?;
        Ok(Stream::new(&self.minialloc, new_stream_id, self.max_buffer_size))
    }

    /// Removes the stream object at the provided path.
    pub fn remove_stream<P: AsRef<Path>>(
        &mut self,
        path: P,
    ) -> io::Result<()> {
        self.remove_stream_with_path(path.as_ref())
    }

    fn remove_stream_with_path(&mut self, path: &Path) -> io::Result<()> {
        let mut names = internal::path::name_chain_from_path(path)?;
        let stream_id = match self.stream_id_for_name_chain(&names) {
            Some(parent_id) => parent_id,
            None => not_found!("No such stream: {:?}", path),
        };
        let (start_sector_id, is_in_mini_stream) = {
            let minialloc = self.minialloc();
            let dir_entry = minialloc.dir_entry(stream_id);
            if dir_entry.obj_type != ObjType::Stream {
                invalid_input!("Not a stream: {:?}", path);
            }
            debug_assert_eq!(dir_entry.child, consts::NO_STREAM);
            (
                dir_entry.start_sector,
                dir_entry.stream_len < consts::MINI_STREAM_CUTOFF as u64,
            )
        };
        if is_in_mini_stream {
            self.minialloc_mut().free_mini_chain(start_sector_id)?;
        } else {
            self.minialloc_mut().free_chain(start_sector_id)?;
        }
        debug_assert!(!names.is_empty());
        let name = names.pop().unwrap();
        let parent_id = self.stream_id_for_name_chain(&names).unwrap();
        self.minialloc_mut().remove_dir_entry(parent_id, name)?;
        Ok(())
    }

    /// Sets the user-defined bitflags for the object at the provided path.
    /// (To get the current state bits for an object, use
    /// `self.entry(path)?.state_bits()`.)
    pub fn set_state_bits<P: AsRef<Path>>(
        &mut self,
        path: P,
        bits: u32,
    ) -> io::Result<()> {
        self.set_entry_with_path(path.as_ref(), |dir_entry| {
            dir_entry.state_bits = bits
        })
    }

    /// Sets the modified time for the object at the given path to now.  Has no
    /// effect when called on the root storage.
    pub fn touch<P: AsRef<Path>>(&mut self, path: P) -> io::Result<()> {
        self.set_modified_time(path, web_time::SystemTime::now())
    }

    /// Sets the modified time for the object at the given path.
    /// Has no effect on streams due to requirements imposed by CFB spec.
    pub fn set_modified_time<P: AsRef<Path>>(
        &mut self,
        path: P,
        ts: web_time::SystemTime,
    ) -> io::Result<()> {
        self.set_entry_with_path(path.as_ref(), |dir_entry| {
            if dir_entry.obj_type != ObjType::Stream {
                dir_entry.modified_time = Timestamp::from_system_time(ts);
            }
        })
    }

    /// Sets the created time for the object at the given path.
    /// Has no effect on streams due to requirements imposed by CFB spec.
    pub fn set_created_time<P: AsRef<Path>>(
        &mut self,
        path: P,
        ts: web_time::SystemTime,
    ) -> io::Result<()> {
        self.set_entry_with_path(path.as_ref(), |dir_entry| {
            if dir_entry.obj_type != ObjType::Stream {
                dir_entry.creation_time = Timestamp::from_system_time(ts);
            }
        })
    }

    fn set_entry_with_path<G: FnMut(&mut DirEntry)>(
        &mut self,
        path: &Path,
        f: G,
    ) -> io::Result<()> {
        let names = internal::path::name_chain_from_path(path)?;
        let path = internal::path::path_from_name_chain(&names);
        let stream_id = match self.stream_id_for_name_chain(&names) {
            Some(stream_id) => stream_id,
            None => not_found!("No such object: {:?}", path),
        };
        self.minialloc_mut().with_dir_entry_mut(stream_id, f)?;
        Ok(())
    }

    /// Flushes all changes to the underlying file.
    pub fn flush(&mut self) -> io::Result<()> {
        self.minialloc_mut().flush()
    }
}

impl<F: fmt::Debug> fmt::Debug for CompoundFile<F> {
    fn fmt(&self, f: &mut fmt::Formatter<'_>) -> fmt::Result {
        f.debug_tuple("CompoundFile").field(self.minialloc().inner()).finish()
    }
}

trait ReadLeNumber: Read {
    fn read_le_u64(&mut self) -> Result<u64, std::io::Error> {
        let mut buf = [0u8; 8];
        self.read_exact(&mut buf)?;
        Ok(u64::from_le_bytes(buf))
    }
    fn read_le_u32(&mut self) -> Result<u32, std::io::Error> {
        let mut buf = [0u8; 4];
        self.read_exact(&mut buf)?;
        Ok(u32::from_le_bytes(buf))
    }
    fn read_le_u16(&mut self) -> Result<u16, std::io::Error> {
        let mut buf = [0u8; 2];
        self.read_exact(&mut buf)?;
        Ok(u16::from_le_bytes(buf))
    }
}
impl<T: Read> ReadLeNumber for T {}

trait WriteLeNumber: Write {
    fn write_le_u64(&mut self, num: u64) -> Result<(), std::io::Error> {
        self.write_all(&num.to_le_bytes())
    }
    fn write_le_u32(&mut self, num: u32) -> Result<(), std::io::Error> {
        self.write_all(&num.to_le_bytes())
    }
    fn write_le_u16(&mut self, num: u16) -> Result<(), std::io::Error> {
        self.write_all(&num.to_le_bytes())
    }
}
impl<T: Write> WriteLeNumber for T {}
//===========================================================================//

#[cfg(test)]
mod tests {
    use std::io::{self, Cursor, Seek, SeekFrom};
    use std::mem::size_of;
    use std::path::Path;

    use crate::internal::{
        consts, DirEntry, Header, ObjType, Timestamp, Version,
    };
    use crate::{ReadLeNumber, WriteLeNumber};

    use super::CompoundFile;

    fn make_cfb_file_with_zero_padded_fat() -> io::Result<Vec<u8>> {
        let version = Version::V3;
        let mut data = Vec::<u8>::new();
        let mut header = Header {
            version,
            num_dir_sectors: 0,
            num_fat_sectors: 1,
            first_dir_sector: 1,
            first_minifat_sector: consts::END_OF_CHAIN,
            num_minifat_sectors: 0,
            first_difat_sector: consts::END_OF_CHAIN,
            num_difat_sectors: 0,
            initial_difat_entries: [consts::FREE_SECTOR;
                consts::NUM_DIFAT_ENTRIES_IN_HEADER],
        };
        header.initial_difat_entries[0] = 0;
        header.write_to(&mut data)?;
        // Write FAT sector:
        let fat: Vec<u32> = vec![consts::FAT_SECTOR, consts::END_OF_CHAIN];
        for &entry in fat.iter() {
            data.write_le_u32(entry)?;
        }
        // Pad the FAT sector with zeros instead of FREE_SECTOR.  Technically
        // this violates the MS-CFB spec (section 2.3), but apparently some CFB
        // implementations do this.
        for _ in fat.len()..(version.sector_len() / size_of::<u32>()) {
            data.write_le_u32(0)?;
        }
        // Write directory sector:
        DirEntry::empty_root_entry().write_to(&mut data)?;
        for _ in 1..version.dir_entries_per_sector() {
            DirEntry::unallocated().write_to(&mut data)?;
        }
        Ok(data)
    }

    fn make_cfb_with_ts(ts: web_time::SystemTime) -> Vec<u8> {
        use std::io::Write;

        let mut buf = Vec::new();
        let mut cfb = CompoundFile::create(io::Cursor::new(&mut buf)).unwrap();

        cfb.create_storage("/foo/").unwrap();
        let mut stream = cfb.create_stream("/foo/bar").unwrap();
        stream.write_all(b"data").unwrap();
        drop(stream);

        let entries: Vec<_> = cfb.walk().collect();
        for entr in entries {
            cfb.set_modified_time(entr.path(), ts).unwrap();
            cfb.set_created_time(entr.path(), ts).unwrap();
        }
        cfb.flush().unwrap();
        buf
    }

    #[test]
    fn zero_padded_fat_strict() {
        let data = make_cfb_file_with_zero_padded_fat().unwrap();
        let result = CompoundFile::open_strict(Cursor::new(data));
        assert_eq!(
            result.err().unwrap().to_string(),
            "Malformed FAT (FAT has 128 entries, but file has only 2 sectors)"
        );
    }

    // Regression test for https://github.com/mdsteele/rust-cfb/issues/8.
    #[test]
    fn zero_padded_fat_permissive() {
        let data = make_cfb_file_with_zero_padded_fat().unwrap();
        // Despite the zero-padded FAT, we should be able to read this file
        // under Permissive validation.
        CompoundFile::open(Cursor::new(data)).expect("open");
    }

    fn make_cfb_file_with_zero_padded_difat() -> io::Result<Vec<u8>> {
        let version = Version::V3;
        let mut data = Vec::<u8>::new();

        let dir_sector = 0;
        let difat_sector = 1;
        // The zero-padded DIFAT issue is only seen with a DIFAT sector
        let num_fat_sectors = consts::NUM_DIFAT_ENTRIES_IN_HEADER + 1;
        // Layout FAT sectors after the DIFAT sector
        let first_fat_sector = difat_sector + 1;
        let fat_sectors: Vec<u32> = (0..num_fat_sectors)
            .map(|i| (first_fat_sector + i) as u32)
            .collect();

        // Construct header full of DIFAT entries
        let header = Header {
            version,
            num_dir_sectors: 0,
            num_fat_sectors: num_fat_sectors as u32,
            first_dir_sector: dir_sector as u32,
            first_minifat_sector: consts::END_OF_CHAIN,
            num_minifat_sectors: 0,
            first_difat_sector: difat_sector as u32,
            num_difat_sectors: 1,
            initial_difat_entries: std::array::from_fn(|difat_entry_i| {
                fat_sectors[difat_entry_i]
            }),
        };
        header.write_to(&mut data)?;

        // Write the directory sector
        DirEntry::empty_root_entry().write_to(&mut data)?;
        for _ in 1..version.dir_entries_per_sector() {
            DirEntry::unallocated().write_to(&mut data)?;
        }

        // Write the DIFAT sector
        let num_difat_entries_in_sector =
            version.sector_len() / size_of::<u32>() - 1;
        for i in 0..num_difat_entries_in_sector {
            let difat_entry_i = i + consts::NUM_DIFAT_ENTRIES_IN_HEADER;

            let entry = if difat_entry_i < num_fat_sectors {
                fat_sectors[difat_entry_i]
            } else {
                // Pad with zeroes instead of FREE_SECTOR, this is
                // the point where it deviates from spec.
                0
            };
            data.write_le_u32(entry)?;
        }
        // End DIFAT chain
        data.write_le_u32(consts::END_OF_CHAIN)?;

        // Write the first two FAT sectors, referencing the header data
        let num_fat_entries_in_sector =
            version.sector_len() / size_of::<u32>();
        let mut fat = vec![consts::FREE_SECTOR; num_fat_entries_in_sector * 2];
        fat[difat_sector] = consts::DIFAT_SECTOR;
        fat[dir_sector] = consts::END_OF_CHAIN;
        for fat_sector in fat_sectors {
            fat[fat_sector as usize] = consts::FAT_SECTOR;
        }
        for entry in fat {
            data.write_le_u32(entry)?;
        }

        // Pad out the rest of the FAT sectors with FREE_SECTOR
        for _fat_sector in 2..num_fat_sectors {
            for _i in 0..num_fat_entries_in_sector {
                data.write_le_u32(consts::FREE_SECTOR)?;
            }
        }

        Ok(data)
    }

    #[test]
    fn zero_padded_difat_strict() {
        let data = make_cfb_file_with_zero_padded_difat().unwrap();
        let result = CompoundFile::open_strict(Cursor::new(data));
        assert_eq!(
            result.err().unwrap().to_string(),
            "Incorrect number of FAT sectors (header says 110, DIFAT says 236)",
        );
    }

    // Regression test for https://github.com/mdsteele/rust-cfb/issues/41.
    #[test]
    fn zero_padded_difat_permissive() {
        let data = make_cfb_file_with_zero_padded_difat().unwrap();
        // Despite the zero-padded DIFAT, we should be able to read this file
        // under Permissive validation.
        CompoundFile::open(Cursor::new(data)).expect("open");
    }

    // Regression test for https://github.com/mdsteele/rust-cfb/issues/52.
    #[test]
    fn update_num_dir_sectors() {
        // Create a CFB file with 2 sectors for the directory.
        let cursor = Cursor::new(Vec::new());
        let mut comp = CompoundFile::create(cursor).unwrap();
        // root + 31 entries in the first sector
        // 1 stream entry in the second sector
        for i in 0..32 {
            let path = format!("stream{i}");
            let path = Path::new(&path);
            comp.create_stream(path).unwrap();
        }
        comp.flush().unwrap();

        // read num_dir_sectors from the header
        let mut cursor = comp.into_inner();
        cursor.seek(SeekFrom::Start(40)).unwrap();
        let num_dir_sectors = cursor.read_le_u32().unwrap();
        assert_eq!(num_dir_sectors, 2);
    }

    #[test]
    fn deterministic_cfbs() {
        let ts = web_time::SystemTime::now();
        let cfb1 = make_cfb_with_ts(ts);
        let cfb2 = make_cfb_with_ts(ts);
        let ts = Timestamp::from_system_time(ts);
        assert_eq!(cfb1, cfb2);

        let cfb = CompoundFile::open(Cursor::new(&cfb1)).unwrap();

        let entry = cfb.entry("/foo").unwrap();
        assert_eq!(Timestamp::from_system_time(entry.created()), ts);
        assert_eq!(Timestamp::from_system_time(entry.modified()), ts);

        let strict = CompoundFile::open_strict(Cursor::new(cfb1)).unwrap();

        let entry = strict.entry("/foo").unwrap();
        assert_eq!(Timestamp::from_system_time(entry.created()), ts);
        assert_eq!(Timestamp::from_system_time(entry.modified()), ts);
    }
    fn make_cfb_with_inconsistent_difat_entries() -> io::Result<Vec<u8>> {
        let mut data = Vec::new();
        // cfb has spare DIFAT_SECTOR entries in FAT not accounted for in header
        let mut hdr = Header {
            version: Version::V3,
            num_dir_sectors: 0,
            num_fat_sectors: 1,
            first_dir_sector: 0,
            first_minifat_sector: consts::END_OF_CHAIN,
            num_minifat_sectors: 0,
            first_difat_sector: consts::END_OF_CHAIN,
            num_difat_sectors: 0,
            initial_difat_entries: [consts::FREE_SECTOR;
                consts::NUM_DIFAT_ENTRIES_IN_HEADER],
        };
        hdr.initial_difat_entries[0] = 1;

        hdr.write_to(&mut data)?;

        // write dir sector
        for entr in [
            DirEntry::new("Root Entry", ObjType::Root, Timestamp::now()),
            DirEntry::unallocated(),
            DirEntry::unallocated(),
            DirEntry::unallocated(),
        ] {
            entr.write_to(&mut data)?;
        }

        // write FAT sector
        data.extend(&consts::END_OF_CHAIN.to_le_bytes());
        data.extend(&consts::FAT_SECTOR.to_le_bytes());
        // add a DIFAT_SECTOR to FAT, although inconsistent with header
        data.extend(&consts::DIFAT_SECTOR.to_le_bytes());
        for _ in (0..128).skip(3) {
            data.extend(&consts::FREE_SECTOR.to_le_bytes());
        }

        Ok(data)
    }

    #[test]
    fn too_many_fat_entries() {
        use std::io::Write;

        let cfb = make_cfb_with_inconsistent_difat_entries().unwrap();

        let mut cfb = CompoundFile::open(Cursor::new(cfb)).unwrap();
        let mut f = cfb.create_stream("stream").unwrap();
        f.write_all(&vec![0; 1024 * 1024]).unwrap();
    }
}

//===========================================================================//
