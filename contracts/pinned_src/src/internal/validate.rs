//===========================================================================//

/// A parsing validation strategy.
#[derive(Clone, Copy, Debug, Eq, Hash, Ord, PartialEq, PartialOrd)]
pub enum Validation {
    /// As much as possible, spec violations will be ignored when parsing.
    Permissive,
    /// Any violation of the CFB spec will be treated as an error when parsing.
    Strict,
}

impl Validation {
    /// Returns true for `Strict` validation, false otherwise.
    pub fn is_strict(self) -> bool {
        match self {
            Validation::Permissive => false,
            Validation::Strict => true,
        }
    }
}

//===========================================================================//
