use crate::internal::{consts, Allocator, Sector, SectorInit};
use std::cmp;
use std::io::{self, Read, Seek, SeekFrom, Write};

//===========================================================================//

pub struct Chain<'a, F: 'a> {
    allocator: &'a mut Allocator<F>,
    init: SectorInit,
    sector_ids: Vec<u32>,
    offset_from_start: u64,
}

impl<'a, F> Chain<'a, F> {
    pub fn new(
        allocator: &'a mut Allocator<F>,
        start_sector_id: u32,
        init: SectorInit,
    ) -> io::Result<Chain<'a, F>> {
        let mut sector_ids = Vec::<u32>::new();
        let mut current_sector_id = start_sector_id;
        let first_sector_id = start_sector_id;
        while current_sector_id != consts::END_OF_CHAIN {
            sector_ids.push(current_sector_id);
            current_sector_id = allocator.next(current_sector_id)?;
            if current_sector_id == first_sector_id {
                invalid_data!(
                    "Chain contained duplicate sector id {}",
                    current_sector_id
                );
            }
        }
        Ok(Chain { allocator, init, sector_ids, offset_from_start: 0 })
    }

    pub fn start_sector_id(&self) -> u32 {
        self.sector_ids.first().copied().unwrap_or(consts::END_OF_CHAIN)
    }

    pub fn num_sectors(&self) -> usize {
        self.sector_ids.len()
    }

    pub fn len(&self) -> u64 {
        (self.allocator.sector_len() as u64) * (self.sector_ids.len() as u64)
    }
}

impl<'a, F: Seek> Chain<'a, F> {
    pub fn into_subsector(
        self,
        subsector_index: u32,
        subsector_len: usize,
        offset_within_subsector: u64,
    ) -> io::Result<Sector<'a, F>> {
        debug_assert!(offset_within_subsector <= subsector_len as u64);
        debug_assert_eq!(self.allocator.sector_len() % subsector_len, 0);
        let subsectors_per_sector =
            self.allocator.sector_len() / subsector_len;
        let sector_index_within_chain =
            subsector_index as usize / subsectors_per_sector;
        let subsector_index_within_sector =
            subsector_index % (subsectors_per_sector as u32);
        let sector_id = *self
            .sector_ids
            .get(sector_index_within_chain)
            .ok_or_else(|| {
                io::Error::new(io::ErrorKind::InvalidData, "invalid sector id")
            })?;
        self.allocator.seek_within_subsector(
            sector_id,
            subsector_index_within_sector,
            subsector_len,
            offset_within_subsector,
        )
    }
}

impl<'a, F: Write + Seek> Chain<'a, F> {
    /// Resizes the chain to the minimum number of sectors large enough to old
    /// `new_len` bytes, allocating or freeing sectors as needed.
    pub fn set_len(&mut self, new_len: u64) -> io::Result<()> {
        let sector_len = self.allocator.sector_len() as u64;
        let new_num_sectors =
            ((sector_len + new_len - 1) / sector_len) as usize;
        if new_num_sectors == 0 {
            if let Some(&start_sector) = self.sector_ids.first() {
                self.allocator.free_chain(start_sector)?;
            }
        } else if new_num_sectors <= self.sector_ids.len() {
            if new_num_sectors < self.sector_ids.len() {
                self.allocator
                    .free_chain_after(self.sector_ids[new_num_sectors - 1])?;
            }
            // Zero the remainder of the final sector, so that growing the
            // chain again later exposes only zeros.
            let remainder = new_num_sectors as u64 * sector_len - new_len;
            if remainder > 0 && matches!(self.init, SectorInit::Zero) {
                let mut sector = self.allocator.seek_within_sector(
                    self.sector_ids[new_num_sectors - 1],
                    sector_len - remainder,
                )?;
                sector.write_all(&vec![0u8; remainder as usize])?;
            }
        } else {
            for _ in self.sector_ids.len()..new_num_sectors {
                let new_sector_id = if let Some(&last_sector_id) =
                    self.sector_ids.last()
                {
                    self.allocator.extend_chain(last_sector_id, self.init)?
                } else {
                    self.allocator.begin_chain(self.init)?
                };
                self.sector_ids.push(new_sector_id);
            }
        }
        Ok(())
    }

    pub fn free(self) -> io::Result<()> {
        self.allocator.free_chain(self.start_sector_id())
    }
}

impl<'a, F> Seek for Chain<'a, F> {
    fn seek(&mut self, pos: SeekFrom) -> io::Result<u64> {
        let length = self.len();
        let new_offset = match pos {
            SeekFrom::Start(delta) => delta as i64,
            SeekFrom::End(delta) => delta + length as i64,
            SeekFrom::Current(delta) => delta + self.offset_from_start as i64,
        };
        if new_offset < 0 || (new_offset as u64) > length {
            invalid_input!(
                "Cannot seek to {}, chain length is {} bytes",
                new_offset,
                length
            );
        }
        self.offset_from_start = new_offset as u64;
        Ok(self.offset_from_start)
    }
}

impl<'a, F: Read + Seek> Read for Chain<'a, F> {
    fn read(&mut self, buf: &mut [u8]) -> io::Result<usize> {
        let total_len = self.len();
        debug_assert!(self.offset_from_start <= total_len);
        let remaining_in_chain = total_len - self.offset_from_start;
        let max_len = cmp::min(buf.len() as u64, remaining_in_chain) as usize;
        if max_len == 0 {
            return Ok(0);
        }
        let sector_len = self.allocator.sector_len() as u64;
        let current_sector_index =
            (self.offset_from_start / sector_len) as usize;
        debug_assert!(current_sector_index < self.sector_ids.len());
        let current_sector_id = self.sector_ids[current_sector_index];
        let offset_within_sector = self.offset_from_start % sector_len;
        let mut sector = self
            .allocator
            .seek_within_sector(current_sector_id, offset_within_sector)?;
        let bytes_read = sector.read(&mut buf[0..max_len])?;
        self.offset_from_start += bytes_read as u64;
        debug_assert!(self.offset_from_start <= total_len);
        Ok(bytes_read)
    }
}

impl<'a, F: Write + Seek> Write for Chain<'a, F> {
    fn write(&mut self, buf: &[u8]) -> io::Result<usize> {
        if buf.is_empty() {
            return Ok(0);
        }
        let mut total_len = self.len();
        let sector_len = self.allocator.sector_len() as u64;
        if self.offset_from_start == total_len {
            let new_sector_id =
                if let Some(&last_sector_id) = self.sector_ids.last() {
                    self.allocator.extend_chain(last_sector_id, self.init)?
                } else {
                    self.allocator.begin_chain(self.init)?
                };
            self.sector_ids.push(new_sector_id);
            total_len += sector_len;
            debug_assert_eq!(total_len, self.len());
        }
        let current_sector_index =
            (self.offset_from_start / sector_len) as usize;
        debug_assert!(current_sector_index < self.sector_ids.len());
        let current_sector_id = self.sector_ids[current_sector_index];
        let offset_within_sector = self.offset_from_start % sector_len;
        let mut sector = self
            .allocator
            .seek_within_sector(current_sector_id, offset_within_sector)?;
        let bytes_written = sector.write(buf)?;
        self.offset_from_start += bytes_written as u64;
        debug_assert!(self.offset_from_start <= total_len);
        Ok(bytes_written)
    }

    fn flush(&mut self) -> io::Result<()> {
        self.allocator.flush()
    }
}

//===========================================================================//
