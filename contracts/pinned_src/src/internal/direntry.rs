use crate::internal::consts::{self, MAX_REGULAR_STREAM_ID, NO_STREAM};
use crate::internal::{self, Color, ObjType, Timestamp, Validation, Version};
use crate::{ReadLeNumber, WriteLeNumber};
use std::io::{self, Read, Write};
use uuid::Uuid;

//===========================================================================//

macro_rules! malformed {
    ($e:expr) => { invalid_data!("Malformed directory entry ({})", $e) };
    ($fmt:expr, $($arg:tt)+) => {
        invalid_data!("Malformed directory entry ({})",
                      format!($fmt, $($arg)+))
    };
}

//===========================================================================//

#[derive(Clone, Debug, PartialEq, Eq)]
pub struct DirEntry {
    pub name: String,
    pub obj_type: ObjType,
    pub color: Color,
    pub left_sibling: u32,
    pub right_sibling: u32,
    pub child: u32,
    pub clsid: Uuid,
    pub state_bits: u32,
    pub creation_time: Timestamp,
    pub modified_time: Timestamp,
    pub start_sector: u32,
    pub stream_len: u64,
}

impl DirEntry {
    pub fn new(
        name: &str,
        obj_type: ObjType,
        timestamp: Timestamp,
    ) -> DirEntry {
        debug_assert_ne!(obj_type, ObjType::Unallocated);
        DirEntry {
            name: name.to_string(),
            obj_type,
            color: Color::Black,
            left_sibling: consts::NO_STREAM,
            right_sibling: consts::NO_STREAM,
            child: consts::NO_STREAM,
            clsid: Uuid::nil(),
            state_bits: 0,
            creation_time: timestamp,
            modified_time: timestamp,
            start_sector: if obj_type == ObjType::Storage {
                // According to the MS-CFB spec section 2.6.3, the starting
                // sector should be set to zero for storage entries.
                0
            } else {
                consts::END_OF_CHAIN
            },
            stream_len: 0,
        }
    }

    pub fn unallocated() -> DirEntry {
        // According to the MS-CFB spec section 2.6.3, unallocated directory
        // entries must consist of all zeros except for the sibling and child
        // fields, which must be NO_STREAM.
        DirEntry {
            name: String::new(),
            obj_type: ObjType::Unallocated,
            color: Color::Red,
            left_sibling: NO_STREAM,
            right_sibling: NO_STREAM,
            child: NO_STREAM,
            clsid: Uuid::nil(),
            state_bits: 0,
            creation_time: Timestamp::zero(),
            modified_time: Timestamp::zero(),
            start_sector: 0,
            stream_len: 0,
        }
    }

    pub fn empty_root_entry() -> DirEntry {
        DirEntry::new(consts::ROOT_DIR_NAME, ObjType::Root, Timestamp::zero())
    }

    fn read_clsid<R: Read>(reader: &mut R) -> io::Result<Uuid> {
        let d1 = reader.read_le_u32()?;
        let d2 = reader.read_le_u16()?;
        let d3 = reader.read_le_u16()?;
        let mut d4 = [0u8; 8];
        reader.read_exact(&mut d4)?;
        Ok(Uuid::from_fields(d1, d2, d3, &d4))
    }

    fn write_clsid<W: Write>(writer: &mut W, clsid: &Uuid) -> io::Result<()> {
        let (d1, d2, d3, d4) = clsid.as_fields();
        writer.write_le_u32(d1)?;
        writer.write_le_u16(d2)?;
        writer.write_le_u16(d3)?;
        writer.write_all(d4)?;
        Ok(())
    }

    pub fn read_from<R: Read>(
        reader: &mut R,
        version: Version,
        validation: Validation,
    ) -> io::Result<DirEntry> {
        let mut name: String = {
            let mut name_chars: Vec<u16> = Vec::with_capacity(32);
            for _ in 0..32 {
                name_chars.push(reader.read_le_u16()?);
            }
            let name_len_bytes = reader.read_le_u16()?;
            if name_len_bytes > 64 {
                malformed!("name length too large: {}", name_len_bytes);
            } else if name_len_bytes % 2 != 0 {
                malformed!("odd name length: {}", name_len_bytes);
            }
            let name_len_chars = if name_len_bytes > 0 {
                (name_len_bytes / 2 - 1) as usize
            } else {
                0
            };
            debug_assert!(name_len_chars < name_chars.len());
            // According to section 2.6.1 of the MS-CFB spec, "The name MUST be
            // terminated with a UTF-16 terminating null character."  (Even
            // though the directory entry aready includes the length of the
            // name.  And also, that length *includes* the null character?
            // Look, CFB is a weird format.)  Anyway, some CFB files in the
            // wild don't do this, so under Permissive validation we don't
            // enforce it.
            if validation.is_strict() && name_chars[name_len_chars] != 0 {
                malformed!("name not null-terminated");
            }
            match String::from_utf16(&name_chars[0..name_len_chars]) {
                Ok(name) => name,
                Err(_) => malformed!("name not valid UTF-16"),
            }
        };

        let obj_type = {
            let mut buf = [0u8];
            reader.read_exact(&mut buf)?;
            let [obj_type_byte] = buf;
            match ObjType::from_byte(obj_type_byte) {
                Some(obj_type) => obj_type,
                None => malformed!("invalid object type: {}", obj_type_byte),
            }
        };

        // According to section 2.6.2 of the MS-CFB spec, "The root directory
        // entry's Name field MUST contain the null-terminated string 'Root
        // Entry' in Unicode UTF-16."  However, some CFB files in the wild
        // don't do this, so under Permissive validation we don't enforce it;
        // instead, for the root entry we just ignore the actual name in the
        // file and treat it as though it were what it's supposed to be.
        if obj_type == ObjType::Root {
            if name != consts::ROOT_DIR_NAME {
                if validation.is_strict() {
                    malformed!(
                        "root entry name is {:?}, but should be {:?}",
                        name,
                        consts::ROOT_DIR_NAME
                    );
                }
                name = consts::ROOT_DIR_NAME.to_string();
            }
        } else {
            internal::path::validate_name(&name)?;
        }

        let color = {
            let mut buf = [0u8];
            reader.read_exact(&mut buf)?;
            let [color_byte] = buf;
            match Color::from_byte(color_byte) {
                Some(color) => color,
                None => malformed!("invalid color: {}", color_byte),
            }
        };
        let left_sibling = reader.read_le_u32()?;
        if left_sibling != NO_STREAM && left_sibling > MAX_REGULAR_STREAM_ID {
            malformed!("invalid left sibling: {}", left_sibling);
        }
        let right_sibling = reader.read_le_u32()?;
        if right_sibling != NO_STREAM && right_sibling > MAX_REGULAR_STREAM_ID
        {
            malformed!("invalid right sibling: {}", right_sibling);
        }
        let child = reader.read_le_u32()?;
        if child != NO_STREAM {
            if obj_type == ObjType::Stream {
                malformed!("non-empty stream child: {}", child);
            } else if child > MAX_REGULAR_STREAM_ID {
                malformed!("invalid child: {}", child);
            }
        }

        // Section 2.6.1 of the MS-CFB spec states that "In a stream object,
        // this [CLSID] field MUST be set to all zeroes."  However, some CFB
        // files in the wild violate this, so under Permissive validation we
        // don't enforce it; instead, for non-storage objects we just ignore
        // the CLSID data entirely and treat it as though it were nil.
        let mut clsid = DirEntry::read_clsid(reader)?;
        if obj_type == ObjType::Stream && !clsid.is_nil() {
            if validation.is_strict() {
                malformed!("non-null stream CLSID: {:?}", clsid);
            }
            clsid = Uuid::nil();
        }

        let state_bits = reader.read_le_u32()?;

        // Section 2.6.1 of the MS-CFB spec states that "for a stream object,
        // [creation time and modified time] MUST be all zeroes."  However,
        // under Permissive validation, we don't enforce this, but instead just
        // treat these fields as though they were zero.
        let mut creation_time = Timestamp::read_from(reader)?;
        if obj_type == ObjType::Stream && creation_time != Timestamp::zero() {
            if validation.is_strict() {
                malformed!(
                    "non-zero stream creation time: {}",
                    creation_time.value()
                );
            }
            creation_time = Timestamp::zero();
        }
        let mut modified_time = Timestamp::read_from(reader)?;
        if obj_type == ObjType::Stream && modified_time != Timestamp::zero() {
            if validation.is_strict() {
                malformed!(
                    "non-zero stream modified time: {}",
                    modified_time.value()
                );
            }
            modified_time = Timestamp::zero();
        }

        // According to the MS-CFB spec section 2.6.3, the starting sector and
        // stream length fields should both be set to zero for storage entries.
        // However, some CFB implementations use FREE_SECTOR or END_OF_CHAIN
        // instead for the starting sector, or even just leave these fields
        // with uninitialized garbage values, so under Permissive validation we
        // don't enforce this; instead, for storage objects we just treat these
        // fields as though they were zero.
        let mut start_sector = reader.read_le_u32()?;
        let mut stream_len = reader.read_le_u64()? & version.stream_len_mask();
        if obj_type == ObjType::Storage {
            if validation.is_strict() && start_sector != 0 {
                malformed!("non-zero storage start sector: {}", start_sector);
            }
            start_sector = 0;
            if validation.is_strict() && stream_len != 0 {
                malformed!("non-zero storage stream length: {}", stream_len);
            }
            stream_len = 0;
        }

        Ok(DirEntry {
            name,
            obj_type,
            color,
            left_sibling,
            right_sibling,
            child,
            clsid,
            state_bits,
            creation_time,
            modified_time,
            start_sector,
            stream_len,
        })
    }

    pub fn write_to<W: Write>(&self, writer: &mut W) -> io::Result<()> {
        debug_assert!(internal::path::validate_name(&self.name).is_ok());
        let name_utf16: Vec<u16> = self.name.encode_utf16().collect();
        debug_assert!(name_utf16.len() < 32);
        for &chr in name_utf16.iter() {
            writer.write_le_u16(chr)?;
        }
        for _ in name_utf16.len()..32 {
            writer.write_le_u16(0)?;
        }
        // An unallocated entry must be all zero apart from its three links
        // (MS-CFB section 2.6.3), so its name length field is zero too.
        let name_len_bytes = if self.obj_type == ObjType::Unallocated {
            0
        } else {
            (name_utf16.len() as u16 + 1) * 2
        };
        writer.write_le_u16(name_len_bytes)?;
        writer.write_all(&[self.obj_type.as_byte()])?;
        writer.write_all(&[self.color.as_byte()])?;
        writer.write_le_u32(self.left_sibling)?;
        writer.write_le_u32(self.right_sibling)?;
        writer.write_le_u32(self.child)?;
        DirEntry::write_clsid(writer, &self.clsid)?;
        writer.write_le_u32(self.state_bits)?;
        self.creation_time.write_to(writer)?;
        self.modified_time.write_to(writer)?;
        writer.write_le_u32(self.start_sector)?;
        writer.write_le_u64(self.stream_len)?;
        Ok(())
    }
}

//===========================================================================//

#[cfg(test)]
mod tests {
    use super::DirEntry;
    use crate::internal::{
        consts, Color, ObjType, Timestamp, Validation, Version,
    };
    use uuid::Uuid;
    use web_time::UNIX_EPOCH;

    #[test]
    fn parse_valid_storage_entry_with_end_of_chain_start() {
        let input: [u8; consts::DIR_ENTRY_LEN] = [
            // Name:
            70, 0, 111, 0, 111, 0, 98, 0, 97, 0, 114, 0, 0, 0, 0, 0, 0, 0, 0,
            0, 0, 0, 0, 0, 0, 0, 0, 0, 0, 0, 0, 0, 0, 0, 0, 0, 0, 0, 0, 0, 0,
            0, 0, 0, 0, 0, 0, 0, 0, 0, 0, 0, 0, 0, 0, 0, 0, 0, 0, 0, 0, 0, 0,
            0, 14, 0, // name length
            1, // obj type
            1, // color,
            12, 0, 0, 0, // left sibling
            34, 0, 0, 0, // right sibling
            56, 0, 0, 0, // child
            0xe0, 0x85, 0x9f, 0xf2, 0xf9, 0x4f, 0x68, 0x10, // CLSID
            0xab, 0x91, 0x08, 0x00, 0x2b, 0x27, 0xb3, 0xd9, // CLSID
            239, 190, 173, 222, // state bits
            0, 0, 0, 0, 0, 0, 0, 0, // created
            0, 0, 0, 0, 0, 0, 0, 0, // modified
            0xfe, 0xff, 0xff, 0xff, // start sector
            0, 0, 0, 0, 0, 0, 0, 0, // stream length
        ];
        let dir_entry = DirEntry::read_from(
            &mut (&input as &[u8]),
            Version::V4,
            Validation::Permissive,
        )
        .unwrap();
        assert_eq!(&dir_entry.name, "Foobar");
        assert_eq!(dir_entry.obj_type, ObjType::Storage);
        assert_eq!(dir_entry.color, Color::Black);
        assert_eq!(dir_entry.left_sibling, 12);
        assert_eq!(dir_entry.right_sibling, 34);
        assert_eq!(dir_entry.child, 56);
        assert_eq!(
            dir_entry.clsid,
            Uuid::parse_str("F29F85E0-4FF9-1068-AB91-08002B27B3D9").unwrap()
        );
        assert_eq!(dir_entry.state_bits, 0xdeadbeef);
        assert_eq!(dir_entry.creation_time, Timestamp::zero());
        assert_eq!(dir_entry.modified_time, Timestamp::zero());
        assert_eq!(dir_entry.start_sector, 0);
        assert_eq!(dir_entry.stream_len, 0);
    }

    #[test]
    fn parse_valid_storage_entry() {
        let input: [u8; consts::DIR_ENTRY_LEN] = [
            // Name:
            70, 0, 111, 0, 111, 0, 98, 0, 97, 0, 114, 0, 0, 0, 0, 0, 0, 0, 0,
            0, 0, 0, 0, 0, 0, 0, 0, 0, 0, 0, 0, 0, 0, 0, 0, 0, 0, 0, 0, 0, 0,
            0, 0, 0, 0, 0, 0, 0, 0, 0, 0, 0, 0, 0, 0, 0, 0, 0, 0, 0, 0, 0, 0,
            0, 14, 0, // name length
            1, // obj type
            1, // color,
            12, 0, 0, 0, // left sibling
            34, 0, 0, 0, // right sibling
            56, 0, 0, 0, // child
            0xe0, 0x85, 0x9f, 0xf2, 0xf9, 0x4f, 0x68, 0x10, // CLSID
            0xab, 0x91, 0x08, 0x00, 0x2b, 0x27, 0xb3, 0xd9, // CLSID
            239, 190, 173, 222, // state bits
            0, 0, 0, 0, 0, 0, 0, 0, // created
            0, 128, 62, 213, 222, 177, 157, 1, // modified
            0, 0, 0, 0, // start sector
            0, 0, 0, 0, 0, 0, 0, 0, // stream length
        ];
        let dir_entry = DirEntry::read_from(
            &mut (&input as &[u8]),
            Version::V4,
            Validation::Strict,
        )
        .unwrap();
        assert_eq!(&dir_entry.name, "Foobar");
        assert_eq!(dir_entry.obj_type, ObjType::Storage);
        assert_eq!(dir_entry.color, Color::Black);
        assert_eq!(dir_entry.left_sibling, 12);
        assert_eq!(dir_entry.right_sibling, 34);
        assert_eq!(dir_entry.child, 56);
        assert_eq!(
            dir_entry.clsid,
            Uuid::parse_str("F29F85E0-4FF9-1068-AB91-08002B27B3D9").unwrap()
        );
        assert_eq!(dir_entry.state_bits, 0xdeadbeef);
        assert_eq!(dir_entry.creation_time, Timestamp::zero());
        assert_eq!(
            dir_entry.modified_time,
            Timestamp::from_system_time(UNIX_EPOCH)
        );
        assert_eq!(dir_entry.start_sector, 0);
        assert_eq!(dir_entry.stream_len, 0);
    }

    #[test]
    #[should_panic(expected = "Malformed directory entry \
                               (invalid object type: 3)")]
    fn invalid_object_type() {
        let input: [u8; consts::DIR_ENTRY_LEN] = [
            // Name:
            70, 0, 111, 0, 111, 0, 98, 0, 97, 0, 114, 0, 0, 0, 0, 0, 0, 0, 0,
            0, 0, 0, 0, 0, 0, 0, 0, 0, 0, 0, 0, 0, 0, 0, 0, 0, 0, 0, 0, 0, 0,
            0, 0, 0, 0, 0, 0, 0, 0, 0, 0, 0, 0, 0, 0, 0, 0, 0, 0, 0, 0, 0, 0,
            0, 14, 0, // name length
            3, // obj type
            1, // color,
            12, 0, 0, 0, // left sibling
            34, 0, 0, 0, // right sibling
            56, 0, 0, 0, // child
            0, 0, 0, 0, 0, 0, 0, 0, 0, 0, 0, 0, 0, 0, 0, 0, // CLSID
            239, 190, 173, 222, // state bits
            0, 0, 0, 0, 0, 0, 0, 0, // created
            0, 0, 0, 0, 0, 0, 0, 0, // modified
            0, 0, 0, 0, // start sector
            0, 0, 0, 0, 0, 0, 0, 0, // stream length
        ];
        DirEntry::read_from(
            &mut (&input as &[u8]),
            Version::V4,
            Validation::Permissive,
        )
        .unwrap();
    }

    #[test]
    #[should_panic(expected = "Malformed directory entry (invalid color: 2)")]
    fn invalid_color() {
        let input: [u8; consts::DIR_ENTRY_LEN] = [
            // Name:
            70, 0, 111, 0, 111, 0, 98, 0, 97, 0, 114, 0, 0, 0, 0, 0, 0, 0, 0,
            0, 0, 0, 0, 0, 0, 0, 0, 0, 0, 0, 0, 0, 0, 0, 0, 0, 0, 0, 0, 0, 0,
            0, 0, 0, 0, 0, 0, 0, 0, 0, 0, 0, 0, 0, 0, 0, 0, 0, 0, 0, 0, 0, 0,
            0, 14, 0, // name length
            1, // obj type
            2, // color,
            12, 0, 0, 0, // left sibling
            34, 0, 0, 0, // right sibling
            56, 0, 0, 0, // child
            0, 0, 0, 0, 0, 0, 0, 0, 0, 0, 0, 0, 0, 0, 0, 0, // CLSID
            239, 190, 173, 222, // state bits
            0, 0, 0, 0, 0, 0, 0, 0, // created
            0, 0, 0, 0, 0, 0, 0, 0, // modified
            0, 0, 0, 0, // start sector
            0, 0, 0, 0, 0, 0, 0, 0, // stream length
        ];
        DirEntry::read_from(
            &mut (&input as &[u8]),
            Version::V4,
            Validation::Permissive,
        )
        .unwrap();
    }

    const NON_ZERO_CREATION_TIME_ON_STREAM: [u8; consts::DIR_ENTRY_LEN] = [
        70, 0, 111, 0, 111, 0, 98, 0, 97, 0, 114, 0, 0, 0, 0, 0, 0, 0, 0, 0,
        0, 0, 0, 0, 0, 0, 0, 0, 0, 0, 0, 0, 0, 0, 0, 0, 0, 0, 0, 0, 0, 0, 0,
        0, 0, 0, 0, 0, 0, 0, 0, 0, 0, 0, 0, 0, 0, 0, 0, 0, 0, 0, 0,
        0, // name
        14, 0, // name length
        2, // obj type
        1, // color,
        12, 0, 0, 0, // left sibling
        34, 0, 0, 0, // right sibling
        0xff, 0xff, 0xff, 0xff, // child
        0, 0, 0, 0, 0, 0, 0, 0, 0, 0, 0, 0, 0, 0, 0, 0, // CLSID
        0, 0, 0, 0, // state bits
        37, 0, 0, 0, 0, 0, 0, 0, // created
        0, 0, 0, 0, 0, 0, 0, 0, // modified
        0, 0, 0, 0, // start sector
        0, 0, 0, 0, 0, 0, 0, 0, // stream length
    ];

    #[test]
    #[should_panic(
        expected = "Malformed directory entry (non-zero stream creation time: \
                    37)"
    )]
    fn non_zero_creation_time_on_stream_strict() {
        let mut input: &[u8] = &NON_ZERO_CREATION_TIME_ON_STREAM;
        DirEntry::read_from(&mut input, Version::V4, Validation::Strict)
            .unwrap();
    }

    #[test]
    fn non_zero_creation_time_on_stream_permissive() {
        let mut input: &[u8] = &NON_ZERO_CREATION_TIME_ON_STREAM;
        let dir_entry = DirEntry::read_from(
            &mut input,
            Version::V4,
            Validation::Permissive,
        )
        .unwrap();
        assert_eq!(dir_entry.obj_type, ObjType::Stream);
        assert_eq!(dir_entry.creation_time, Timestamp::zero());
    }

    const NON_ZERO_MODIFIED_TIME_ON_STREAM: [u8; consts::DIR_ENTRY_LEN] = [
        70, 0, 111, 0, 111, 0, 98, 0, 97, 0, 114, 0, 0, 0, 0, 0, 0, 0, 0, 0,
        0, 0, 0, 0, 0, 0, 0, 0, 0, 0, 0, 0, 0, 0, 0, 0, 0, 0, 0, 0, 0, 0, 0,
        0, 0, 0, 0, 0, 0, 0, 0, 0, 0, 0, 0, 0, 0, 0, 0, 0, 0, 0, 0,
        0, // name
        14, 0, // name length
        2, // obj type
        1, // color,
        12, 0, 0, 0, // left sibling
        34, 0, 0, 0, // right sibling
        0xff, 0xff, 0xff, 0xff, // child
        0, 0, 0, 0, 0, 0, 0, 0, 0, 0, 0, 0, 0, 0, 0, 0, // CLSID
        0, 0, 0, 0, // state bits
        0, 0, 0, 0, 0, 0, 0, 0, // created
        0, 1, 0, 0, 0, 0, 0, 0, // modified
        0, 0, 0, 0, // start sector
        0, 0, 0, 0, 0, 0, 0, 0, // stream length
    ];

    #[test]
    #[should_panic(
        expected = "Malformed directory entry (non-zero stream modified time: \
                    256)"
    )]
    fn non_zero_modified_time_on_stream_strict() {
        let mut input: &[u8] = &NON_ZERO_MODIFIED_TIME_ON_STREAM;
        DirEntry::read_from(&mut input, Version::V4, Validation::Strict)
            .unwrap();
    }

    #[test]
    fn non_zero_modified_time_on_stream_permissive() {
        let mut input: &[u8] = &NON_ZERO_MODIFIED_TIME_ON_STREAM;
        let dir_entry = DirEntry::read_from(
            &mut input,
            Version::V4,
            Validation::Permissive,
        )
        .unwrap();
        assert_eq!(dir_entry.obj_type, ObjType::Stream);
        assert_eq!(dir_entry.modified_time, Timestamp::zero());
    }

    const NON_NULL_CLSID_ON_STREAM: [u8; consts::DIR_ENTRY_LEN] = [
        70, 0, 111, 0, 111, 0, 98, 0, 97, 0, 114, 0, 0, 0, 0, 0, 0, 0, 0, 0,
        0, 0, 0, 0, 0, 0, 0, 0, 0, 0, 0, 0, 0, 0, 0, 0, 0, 0, 0, 0, 0, 0, 0,
        0, 0, 0, 0, 0, 0, 0, 0, 0, 0, 0, 0, 0, 0, 0, 0, 0, 0, 0, 0,
        0, // name
        14, 0, // name length
        2, // obj type
        1, // color,
        12, 0, 0, 0, // left sibling
        34, 0, 0, 0, // right sibling
        0xff, 0xff, 0xff, 0xff, // child
        1, 2, 3, 4, 5, 6, 7, 8, 9, 8, 7, 6, 5, 4, 3, 2, // CLSID
        0, 0, 0, 0, // state bits
        0, 0, 0, 0, 0, 0, 0, 0, // created
        0, 0, 0, 0, 0, 0, 0, 0, // modified
        0, 0, 0, 0, // start sector
        0, 0, 0, 0, 0, 0, 0, 0, // stream length
    ];

    #[test]
    #[should_panic(
        expected = "Malformed directory entry (non-null stream CLSID: \
                    04030201-0605-0807-0908-070605040302)"
    )]
    fn non_null_clsid_on_stream_strict() {
        let mut input: &[u8] = &NON_NULL_CLSID_ON_STREAM;
        DirEntry::read_from(&mut input, Version::V4, Validation::Strict)
            .unwrap();
    }

    // Regression test for https://github.com/mdsteele/rust-cfb/issues/26
    #[test]
    fn non_null_clsid_on_stream_permissive() {
        let mut input: &[u8] = &NON_NULL_CLSID_ON_STREAM;
        // Section 2.6.1 of the MS-CFB spec states that "In a stream object,
        // this [CLSID] field MUST be set to all zeroes."  However, some CFB
        // files in the wild violate this.  So we allow parsing a stream dir
        // entry with a non-nil CLSID under Permissive validation, but we
        // ignore that CLSID and just set it to all zeroes.
        let dir_entry = DirEntry::read_from(
            &mut input,
            Version::V4,
            Validation::Permissive,
        )
        .unwrap();
        assert_eq!(dir_entry.obj_type, ObjType::Stream);
        assert!(dir_entry.clsid.is_nil());
    }

    const NON_NULL_TERMINATED_NAME: [u8; consts::DIR_ENTRY_LEN] = [
        70, 0, 111, 0, 111, 0, 98, 0, 97, 0, 114, 0, 1, 1, 1, 1, 1, 1, 1, 1,
        1, 1, 1, 1, 1, 1, 1, 1, 1, 1, 1, 1, 1, 1, 1, 1, 1, 1, 1, 1, 1, 1, 1,
        1, 1, 1, 1, 1, 1, 1, 1, 1, 1, 1, 1, 1, 1, 1, 1, 1, 1, 1, 1,
        0, // name
        14, 0, // name length
        2, // obj type
        1, // color,
        12, 0, 0, 0, // left sibling
        34, 0, 0, 0, // right sibling
        0xff, 0xff, 0xff, 0xff, // child
        0, 0, 0, 0, 0, 0, 0, 0, 0, 0, 0, 0, 0, 0, 0, 0, // CLSID
        0, 0, 0, 0, // state bits
        0, 0, 0, 0, 0, 0, 0, 0, // created
        0, 0, 0, 0, 0, 0, 0, 0, // modified
        0, 0, 0, 0, // start sector
        0, 0, 0, 0, 0, 0, 0, 0, // stream length
    ];

    #[test]
    #[should_panic(
        expected = "Malformed directory entry (name not null-terminated)"
    )]
    fn non_null_terminated_name_strict() {
        let mut input: &[u8] = &NON_NULL_TERMINATED_NAME;
        DirEntry::read_from(&mut input, Version::V4, Validation::Strict)
            .unwrap();
    }

    // Regression test for https://github.com/mdsteele/rust-cfb/issues/26
    #[test]
    fn non_null_terminated_name_permissive() {
        let mut input: &[u8] = &NON_NULL_TERMINATED_NAME;
        // According to section 2.6.1 of the MS-CFB spec, "The name MUST be
        // terminated with a UTF-16 terminating null character."  But some CFB
        // files in the wild don't do this, so under Permissive validation we
        // just rely on the name length field.
        let dir_entry = DirEntry::read_from(
            &mut input,
            Version::V4,
            Validation::Permissive,
        )
        .unwrap();
        assert_eq!(dir_entry.name, "Foobar");
    }

    #[test]
    fn nonzero_storage_starting_sector_strict() {
        let mut dir_entry =
            DirEntry::new("Foobar", ObjType::Storage, Timestamp::zero());
        dir_entry.start_sector = 58;
        let mut input = Vec::<u8>::new();
        dir_entry.write_to(&mut input).unwrap();
        let result = DirEntry::read_from(
            &mut input.as_slice(),
            Version::V4,
            Validation::Strict,
        );
        assert_eq!(
            result.err().unwrap().to_string(),
            "Malformed directory entry (non-zero storage start sector: 58)"
        );
    }

    #[test]
    fn nonzero_storage_stream_len_strict() {
        let mut dir_entry =
            DirEntry::new("Foobar", ObjType::Storage, Timestamp::zero());
        dir_entry.stream_len = 574;
        let mut input = Vec::<u8>::new();
        dir_entry.write_to(&mut input).unwrap();
        let result = DirEntry::read_from(
            &mut input.as_slice(),
            Version::V4,
            Validation::Strict,
        );
        assert_eq!(
            result.err().unwrap().to_string(),
            "Malformed directory entry (non-zero storage stream length: 574)"
        );
    }

    // Regression test for https://github.com/mdsteele/rust-cfb/issues/27
    #[test]
    fn nonzero_storage_starting_sector_and_stream_len_permissive() {
        let mut dir_entry =
            DirEntry::new("Foobar", ObjType::Storage, Timestamp::zero());
        dir_entry.start_sector = 58;
        dir_entry.stream_len = 574;
        let mut input = Vec::<u8>::new();
        dir_entry.write_to(&mut input).unwrap();
        // According to section 2.6.3 of the MS-CFB spec, the starting sector
        // location and stream size fields should be set to zero in a storage
        // directory entry.  But some CFB files in the wild don't do this, so
        // when parsing a storage entry under Permissive validation, just
        // ignore those fields' values and pretend they're zero.
        let dir_entry = DirEntry::read_from(
            &mut (&input as &[u8]),
            Version::V4,
            Validation::Permissive,
        )
        .unwrap();
        assert_eq!(dir_entry.obj_type, ObjType::Storage);
        assert_eq!(dir_entry.start_sector, 0);
        assert_eq!(dir_entry.stream_len, 0);
    }

    const ROOT_ENTRY_WITH_INCORRECT_NAME: [u8; consts::DIR_ENTRY_LEN] = [
        70, 0, 111, 0, 111, 0, 98, 0, 97, 0, 114, 0, 0, 0, 0, 0, 0, 0, 0, 0,
        0, 0, 0, 0, 0, 0, 0, 0, 0, 0, 0, 0, 0, 0, 0, 0, 0, 0, 0, 0, 0, 0, 0,
        0, 0, 0, 0, 0, 0, 0, 0, 0, 0, 0, 0, 0, 0, 0, 0, 0, 0, 0, 0,
        0, // name
        14, 0, // name length
        5, // obj type
        1, // color,
        12, 0, 0, 0, // left sibling
        34, 0, 0, 0, // right sibling
        56, 0, 0, 0, // child
        0, 0, 0, 0, 0, 0, 0, 0, 0, 0, 0, 0, 0, 0, 0, 0, // CLSID
        239, 190, 173, 222, // state bits
        0, 0, 0, 0, 0, 0, 0, 0, // created
        0, 0, 0, 0, 0, 0, 0, 0, // modified
        0, 0, 0, 0, // start sector
        0, 0, 0, 0, 0, 0, 0, 0, // stream length
    ];

    #[test]
    #[should_panic(
        expected = "Malformed directory entry (root entry name is \
                    \\\"Foobar\\\", but should be \\\"Root Entry\\\")"
    )]
    fn root_entry_with_incorrect_name_strict() {
        let mut input: &[u8] = &ROOT_ENTRY_WITH_INCORRECT_NAME;
        DirEntry::read_from(&mut input, Version::V4, Validation::Strict)
            .unwrap();
    }

    // Regression test for https://github.com/mdsteele/rust-cfb/issues/29
    #[test]
    fn root_entry_with_incorrect_name_permissive() {
        let mut input: &[u8] = &ROOT_ENTRY_WITH_INCORRECT_NAME;
        // According to section 2.6.2 of the MS-CFB spec, the name field MUST
        // be set to "Root Entry" in the root directory entry.  But some CFB
        // files in the wild don't do this, so when parsing the root entry
        // under Permissive validation, just ignore the name in the file and
        // pretend it's correct.
        let dir_entry = DirEntry::read_from(
            &mut input,
            Version::V4,
            Validation::Permissive,
        )
        .unwrap();
        assert_eq!(dir_entry.obj_type, ObjType::Root);
        assert_eq!(dir_entry.name, "Root Entry");
    }
}

//===========================================================================//
