use crate::internal::{consts, DirEntry, Version};
use crate::WriteLeNumber;
use std::cmp;
use std::io::{self, Read, Seek, SeekFrom, Write};

// ========================================================================= //

/// A wrapper around the underlying file of a CompoundFile struct, providing
/// access to individual sectors of the file.
pub struct Sectors<F> {
    inner: F,
    version: Version,
    num_sectors: u32,
}

impl<F> Sectors<F> {
    pub fn new(version: Version, inner_len: u64, inner: F) -> Sectors<F> {
        let sector_len = version.sector_len() as u64;
        debug_assert!(inner_len >= sector_len);
        let num_sectors = inner_len.div_ceil(sector_len) as u32 - 1;
        Sectors { inner, version, num_sectors }
    }

    pub fn version(&self) -> Version {
        self.version
    }

    pub fn sector_len(&self) -> usize {
        self.version.sector_len()
    }

    pub fn num_sectors(&self) -> u32 {
        self.num_sectors
    }

    pub fn into_inner(self) -> F {
        self.inner
    }

    pub fn inner(&self) -> &F {
        &self.inner
    }
}

impl<F: Seek> Sectors<F> {
    pub fn seek_within_header(
        &mut self,
        offset_within_header: u64,
    ) -> io::Result<Sector<'_, F>> {
        debug_assert!(offset_within_header < consts::HEADER_LEN as u64);
        self.inner.seek(SeekFrom::Start(offset_within_header))?;
        Ok(Sector {
            inner: &mut self.inner,
            sector_len: consts::HEADER_LEN,
            offset_within_sector: offset_within_header as usize,
        })
    }

    pub fn seek_to_sector(
        &mut self,
        sector_id: u32,
    ) -> io::Result<Sector<'_, F>> {
        self.seek_within_sector(sector_id, 0)
    }

    pub fn seek_within_sector(
        &mut self,
        sector_id: u32,
        offset_within_sector: u64,
    ) -> io::Result<Sector<'_, F>> {
        debug_assert!(offset_within_sector <= self.sector_len() as u64);
        if sector_id >= self.num_sectors {
            invalid_data!(
                "Tried to seek to sector {}, but sector count is only {}",
                sector_id,
                self.num_sectors
            );
        }
        let sector_len = self.sector_len();
        self.inner.seek(SeekFrom::Start(
            (sector_id + 1) as u64 * sector_len as u64 + offset_within_sector,
        ))?;
        Ok(Sector {
            inner: &mut self.inner,
            sector_len,
            offset_within_sector: offset_within_sector as usize,
        })
    }
}

impl<F: Write + Seek> Sectors<F> {
    /// Creates or resets the specified sector using the given initializer.
    pub fn init_sector(
        &mut self,
        sector_id: u32,
        init: SectorInit,
    ) -> io::Result<()> {
        match sector_id.cmp(&self.num_sectors) {
            cmp::Ordering::Greater => invalid_data!(
                "Tried to initialize sector {}, but sector count is only {}",
                sector_id,
                self.num_sectors
            ),
            cmp::Ordering::Less => {}
            cmp::Ordering::Equal => self.num_sectors += 1,
        }
        let mut sector = self.seek_to_sector(sector_id)?;
        init.initialize(&mut sector)?;
        Ok(())
    }

    /// Flushes all changes to the underlying file.
    pub fn flush(&mut self) -> io::Result<()> {
        self.inner.flush()
    }
}

// ========================================================================= //

/// A wrapper around a single sector or mini sector within a CFB file, allowing
/// read and write access only within that sector.
pub struct Sector<'a, F: 'a> {
    inner: &'a mut F,
    sector_len: usize,
    offset_within_sector: usize,
}

impl<'a, F> Sector<'a, F> {
    /// Returns the total length of this sector.
    pub fn len(&self) -> usize {
        self.sector_len
    }

    fn remaining(&self) -> usize {
        debug_assert!(self.offset_within_sector <= self.len());
        self.len() - self.offset_within_sector
    }

    pub fn subsector(self, start: usize, len: usize) -> Sector<'a, F> {
        debug_assert!(self.offset_within_sector <= self.len());
        debug_assert!(start <= self.offset_within_sector);
        debug_assert!(start + len >= self.offset_within_sector);
        debug_assert!(start + len <= self.len());
        Sector {
            inner: self.inner,
            sector_len: len,
            offset_within_sector: self.offset_within_sector - start,
        }
    }
}

impl<'a, F: Read> Read for Sector<'a, F> {
    fn read(&mut self, buf: &mut [u8]) -> io::Result<usize> {
        let max_len = cmp::min(buf.len(), self.remaining());
        if max_len == 0 {
            return Ok(0);
        }
        let bytes_read = self.inner.read(&mut buf[0..max_len])?;
        self.offset_within_sector += bytes_read;
        debug_assert!(self.offset_within_sector <= self.len());
        Ok(bytes_read)
    }
}

impl<'a, F: Write> Write for Sector<'a, F> {
    fn write(&mut self, buf: &[u8]) -> io::Result<usize> {
        let max_len = cmp::min(buf.len(), self.remaining());
        if max_len == 0 {
            return Ok(0);
        }
        let bytes_written = self.inner.write(&buf[0..max_len])?;
        self.offset_within_sector += bytes_written;
        debug_assert!(self.offset_within_sector <= self.len());
        Ok(bytes_written)
    }

    fn flush(&mut self) -> io::Result<()> {
        self.inner.flush()
    }
}

impl<'a, F: Seek> Seek for Sector<'a, F> {
    fn seek(&mut self, pos: SeekFrom) -> io::Result<u64> {
        let old_offset = self.offset_within_sector as i64;
        let new_offset = match pos {
            SeekFrom::Start(delta) => delta as i64,
            SeekFrom::End(delta) => self.len() as i64 + delta,
            SeekFrom::Current(delta) => {
                self.offset_within_sector as i64 + delta
            }
        };
        if new_offset < 0 || new_offset > self.len() as i64 {
            panic!("Internal error: cannot seek outside of sector");
        }
        self.inner.seek(SeekFrom::Current(new_offset - old_offset))?;
        self.offset_within_sector = new_offset as usize;
        Ok(new_offset as u64)
    }
}

// ========================================================================= //

#[derive(Clone, Copy)]
pub enum SectorInit {
    Zero,
    Fat,
    Difat,
    Dir,
}

impl SectorInit {
    fn initialize<F: Write>(
        self,
        sector: &mut Sector<'_, F>,
    ) -> io::Result<()> {
        debug_assert_eq!(sector.offset_within_sector, 0);
        match self {
            SectorInit::Zero => {
                io::copy(
                    &mut io::repeat(0).take(sector.len() as u64),
                    sector,
                )?;
            }
            SectorInit::Fat => {
                debug_assert_eq!(sector.len() % 4, 0);
                for _ in 0..(sector.len() / 4) {
                    sector.write_le_u32(consts::FREE_SECTOR)?;
                }
            }
            SectorInit::Difat => {
                debug_assert_eq!(sector.len() % 4, 0);
                debug_assert!(sector.len() >= 4);
                for _ in 0..((sector.len() - 4) / 4) {
                    sector.write_le_u32(consts::FREE_SECTOR)?;
                }
                sector.write_le_u32(consts::END_OF_CHAIN)?;
            }
            SectorInit::Dir => {
                debug_assert_eq!(sector.len() % consts::DIR_ENTRY_LEN, 0);
                let dir_entry = DirEntry::unallocated();
                for _ in 0..(sector.len() / consts::DIR_ENTRY_LEN) {
                    dir_entry.write_to(sector)?;
                }
            }
        }
        Ok(())
    }
}

// ========================================================================= //

#[cfg(test)]
mod tests {
    use super::{SectorInit, Sectors};
    use crate::internal::{consts, DirEntry, ObjType, Validation, Version};
    use crate::ReadLeNumber;
    use std::io::{Cursor, Read, Seek, SeekFrom, Write};

    #[test]
    fn sector_read() {
        let mut data = vec![1u8; 512];
        data.append(&mut vec![2; 512]);
        data.append(&mut vec![3; 512]);
        data.append(&mut vec![4; 512]);
        let mut sectors = Sectors::new(Version::V3, 2048, Cursor::new(data));
        assert_eq!(sectors.sector_len(), 512);
        assert_eq!(sectors.num_sectors(), 3);
        let mut sector = sectors.seek_to_sector(1).unwrap();
        assert_eq!(sector.len(), 512);
        {
            let mut buffer = vec![0; 400];
            assert_eq!(sector.read(&mut buffer).unwrap(), 400);
            assert_eq!(buffer, vec![3; 400])
        }
        {
            let mut buffer = vec![0; 400];
            assert_eq!(sector.read(&mut buffer).unwrap(), 112);
            let mut expected_data = vec![3; 112];
            expected_data.append(&mut vec![0; 288]);
            assert_eq!(buffer, expected_data);
        }
        {
            let mut buffer = vec![0; 400];
            assert_eq!(sector.read(&mut buffer).unwrap(), 0);
            assert_eq!(buffer, vec![0; 400])
        }
    }

    #[test]
    fn sector_write() {
        let cursor = Cursor::new(vec![0u8; 2048]);
        let mut sectors = Sectors::new(Version::V3, 2048, cursor);
        assert_eq!(sectors.sector_len(), 512);
        assert_eq!(sectors.num_sectors(), 3);
        {
            let mut sector = sectors.seek_to_sector(1).unwrap();
            assert_eq!(sector.len(), 512);
            assert_eq!(sector.write(&vec![1; 400]).unwrap(), 400);
            assert_eq!(sector.write(&vec![2; 400]).unwrap(), 112);
            assert_eq!(sector.write(&vec![3; 400]).unwrap(), 0);
        }
        let actual_data = sectors.into_inner().into_inner();
        let mut expected_data = vec![0u8; 1024];
        expected_data.append(&mut vec![1; 400]);
        expected_data.append(&mut vec![2; 112]);
        expected_data.append(&mut vec![0; 512]);
        assert_eq!(actual_data, expected_data);
    }

    #[test]
    fn sector_seek() {
        let mut data = vec![0u8; 512];
        data.append(&mut vec![1; 128]);
        data.append(&mut vec![2; 128]);
        data.append(&mut vec![3; 128]);
        data.append(&mut vec![4; 128]);
        assert_eq!(data.len(), 1024);
        let mut sectors = Sectors::new(Version::V3, 1536, Cursor::new(data));
        assert_eq!(sectors.sector_len(), 512);
        assert_eq!(sectors.num_sectors(), 2);
        let mut sector = sectors.seek_to_sector(0).unwrap();
        let mut buffer = vec![0; 128];
        assert_eq!(sector.seek(SeekFrom::Start(128)).unwrap(), 128);
        sector.read_exact(&mut buffer).unwrap();
        assert_eq!(buffer, vec![2; 128]);
        assert_eq!(sector.seek(SeekFrom::End(-128)).unwrap(), 384);
        sector.read_exact(&mut buffer).unwrap();
        assert_eq!(buffer, vec![4; 128]);
        assert_eq!(sector.seek(SeekFrom::Current(-256)).unwrap(), 256);
        sector.read_exact(&mut buffer).unwrap();
        assert_eq!(buffer, vec![3; 128]);
    }

    #[test]
    fn sector_init() {
        let data = vec![0u8; 512];
        let mut sectors = Sectors::new(Version::V3, 512, Cursor::new(data));
        assert_eq!(sectors.num_sectors(), 0);
        {
            sectors.init_sector(0, SectorInit::Zero).unwrap();
            let mut sector = sectors.seek_to_sector(0).unwrap();
            let mut buffer = vec![0xff; 512];
            sector.read_exact(&mut buffer).unwrap();
            assert_eq!(buffer, vec![0; 512]);
        }
        {
            sectors.init_sector(1, SectorInit::Fat).unwrap();
            let mut sector = sectors.seek_to_sector(1).unwrap();
            for _ in 0..128 {
                assert_eq!(sector.read_le_u32().unwrap(), consts::FREE_SECTOR);
            }
        }
        {
            sectors.init_sector(2, SectorInit::Difat).unwrap();
            let mut sector = sectors.seek_to_sector(2).unwrap();
            for _ in 0..127 {
                assert_eq!(sector.read_le_u32().unwrap(), consts::FREE_SECTOR);
            }
            assert_eq!(sector.read_le_u32().unwrap(), consts::END_OF_CHAIN);
        }
        {
            sectors.init_sector(3, SectorInit::Dir).unwrap();
            let mut sector = sectors.seek_to_sector(3).unwrap();
            for _ in 0..4 {
                let dir_entry = DirEntry::read_from(
                    &mut sector,
                    Version::V3,
                    Validation::Strict,
                )
                .unwrap();
                assert_eq!(dir_entry.obj_type, ObjType::Unallocated);
                assert_eq!(dir_entry.left_sibling, consts::NO_STREAM);
                assert_eq!(dir_entry.right_sibling, consts::NO_STREAM);
                assert_eq!(dir_entry.child, consts::NO_STREAM);
            }
        }
    }

    #[test]
    fn partial_final_sector() {
        let data = vec![0u8; 1124];
        let len = data.len() as u64;
        let mut sectors = Sectors::new(Version::V3, len, Cursor::new(data));
        assert_eq!(sectors.num_sectors(), 2);
        sectors.init_sector(2, SectorInit::Zero).unwrap();
        let data: Vec<u8> = sectors.into_inner().into_inner();
        assert_eq!(data, vec![0u8; 2048]);
    }
}

// ========================================================================= //
