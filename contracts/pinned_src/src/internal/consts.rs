// ========================================================================= //

pub const HEADER_LEN: usize = 512; // length of CFB file header, in bytes
pub const DIR_ENTRY_LEN: usize = 128; // length of directory entry, in bytes
pub const NUM_DIFAT_ENTRIES_IN_HEADER: usize = 109;

// Constants for CFB file header values:
pub const MAGIC_NUMBER: [u8; 8] =
    [0xd0, 0xcf, 0x11, 0xe0, 0xa1, 0xb1, 0x1a, 0xe1];
pub const MINOR_VERSION: u16 = 0x3e;
pub const BYTE_ORDER_MARK: u16 = 0xfffe;
pub const MINI_SECTOR_SHIFT: u16 = 6; // 64-byte mini sectors
pub const MINI_SECTOR_LEN: usize = 1 << (MINI_SECTOR_SHIFT as usize);
pub const MINI_STREAM_CUTOFF: u32 = 4096;

// Constants for FAT entries:
pub const MAX_REGULAR_SECTOR: u32 = 0xfffffffa;
pub const INVALID_SECTOR: u32 = 0xfffffffb;
pub const DIFAT_SECTOR: u32 = 0xfffffffc;
pub const FAT_SECTOR: u32 = 0xfffffffd;
pub const END_OF_CHAIN: u32 = 0xfffffffe;
pub const FREE_SECTOR: u32 = 0xffffffff;

// Constants for directory entries:
pub const ROOT_DIR_NAME: &str = "Root Entry";
pub const OBJ_TYPE_UNALLOCATED: u8 = 0;
pub const OBJ_TYPE_STORAGE: u8 = 1;
pub const OBJ_TYPE_STREAM: u8 = 2;
pub const OBJ_TYPE_ROOT: u8 = 5;
pub const COLOR_RED: u8 = 0;
pub const COLOR_BLACK: u8 = 1;
pub const ROOT_STREAM_ID: u32 = 0;
pub const MAX_REGULAR_STREAM_ID: u32 = 0xfffffffa;
pub const NO_STREAM: u32 = 0xffffffff;

pub(crate) fn prettify(sectors: &[u32]) -> Vec<Sector> {
    let mut fmt = Vec::new();
    for s in sectors.iter() {
        match *s {
            END_OF_CHAIN => fmt.push(Sector::End),
            FREE_SECTOR => {
                if let Some(Sector::Free(i)) = fmt.last_mut() {
                    *i += 1;
                    continue;
                }
                fmt.push(Sector::Free(1));
            }
            DIFAT_SECTOR => {
                if let Some(Sector::Difat(i)) = fmt.last_mut() {
                    *i += 1;
                    continue;
                }
                fmt.push(Sector::Difat(1));
            }
            FAT_SECTOR => {
                if let Some(Sector::Fat(i)) = fmt.last_mut() {
                    *i += 1;
                    continue;
                }
                fmt.push(Sector::Fat(1));
            }
            i => {
                if let Some(Sector::Range(_, end)) = fmt.last_mut() {
                    if *end + 1 == i {
                        *end += 1;
                        continue;
                    }
                }
                fmt.push(Sector::Range(i, i));
            }
        };
    }
    fmt
}

#[derive(Clone, PartialEq, Eq)]
pub(crate) enum Sector {
    // number of contiguous free sectors
    Free(usize),
    End,
    // number of contiguous fat sectors
    Fat(usize),
    // number of contiguous difat sectors
    Difat(usize),
    Range(u32, u32),
}

impl Sector {
    pub(crate) fn new(i: u32) -> Sector {
        match i {
            END_OF_CHAIN => Sector::End,
            FREE_SECTOR => Sector::Free(1),
            DIFAT_SECTOR => Sector::Difat(1),
            FAT_SECTOR => Sector::Fat(1),
            i => Sector::Range(i, i),
        }
    }
}

impl std::fmt::Debug for Sector {
    fn fmt(&self, f: &mut std::fmt::Formatter<'_>) -> std::fmt::Result {
        match self {
            Sector::Range(start, end) if *start == *end => {
                write!(f, "{start}")
            }
            Sector::Range(start, end) => write!(f, "{start}..={end}"),
            Sector::Free(1) => f.write_str("FREE"),
            Sector::Free(n) => write!(f, "{n} FREE"),
            Sector::End => f.write_str("EOC"),
            Sector::Fat(1) => f.write_str("FAT"),
            Sector::Fat(n) => write!(f, "{n} FAT"),
            Sector::Difat(1) => f.write_str("DIFAT"),
            Sector::Difat(n) => write!(f, "{n} DIFAT"),
        }
    }
}

#[cfg(test)]
mod tests {
    use super::*;

    #[test]
    fn test_prettify_sectors() {
        let sectors = [
            END_OF_CHAIN,
            0,
            1,
            2,
            3,
            4,
            5,
            6,
            7,
            END_OF_CHAIN,
            23,
            25,
            18,
            FREE_SECTOR,
            FREE_SECTOR,
            27,
            FREE_SECTOR,
        ];
        let s = prettify(&sectors);
        assert_eq!(
            "[EOC, 0..=7, EOC, 23, 25, 18, 2 FREE, 27, FREE]",
            format!("{s:?}")
        );
    }
}

// ========================================================================= //
