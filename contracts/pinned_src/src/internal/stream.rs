use crate::internal::{consts, MiniAllocator, ObjType, SectorInit};
use std::io::{self, BufRead, Read, Seek, SeekFrom, Write};
use std::sync::{Arc, RwLock, Weak};

//===========================================================================//

use crate::internal::stream_buffer::StreamBuffer;

//===========================================================================//

/// A stream entry in a compound file, much like a filesystem file.
pub struct Stream<F> {
    minialloc: Weak<RwLock<MiniAllocator<F>>>,
    stream_id: u32,
    total_len: u64,
    buffer: StreamBuffer,
    buf_offset_from_start: u64,
    flusher: Option<Box<dyn Flusher<F>>>,
}

impl<F> Stream<F> {
    pub(crate) fn new(
        minialloc: &Arc<RwLock<MiniAllocator<F>>>,
        stream_id: u32,
        max_buffer_size: usize,
    ) -> Stream<F> {
        let total_len =
            minialloc.read().unwrap().dir_entry(stream_id).stream_len;
        Stream {
            minialloc: Arc::downgrade(minialloc),
            stream_id,
            total_len,
            buffer: StreamBuffer::new(max_buffer_size),
            buf_offset_from_start: 0,
            flusher: None,
        }
    }

    fn minialloc(&self) -> io::Result<Arc<RwLock<MiniAllocator<F>>>> {
        self.minialloc
            .upgrade()
            .ok_or_else(|| io::Error::other("CompoundFile was dropped"))
    }

    /// Returns the current length of the stream, in bytes.
    pub fn len(&self) -> u64 {
        self.total_len
    }

    /// Returns true if the stream is empty.
    pub fn is_empty(&self) -> bool {
        self.total_len == 0
    }

    fn current_position(&self) -> u64 {
        self.buf_offset_from_start + (self.buffer.cursor() as u64)
    }

    fn flush_changes(&mut self) -> io::Result<()> {
        if let Some(flusher) = self.flusher.take() {
            if let Err(err) = flusher.flush_changes(self) {
                // Keep the stream marked as modified, so that a later flush
                // tries to write the buffered data again.
                self.flusher = Some(flusher);
                return Err(err);
            }
        }
        Ok(())
    }
}

impl<F: Read + Write + Seek> Stream<F> {
    /// Truncates or extends the stream, updating the size of this stream to
    /// become `size`.
    ///
    /// If `size` is less than the stream's current size, then the stream will
    /// be shrunk.  If it is greater than the stream's current size, then the
    /// stream will be padded with zero bytes.
    ///
    /// Does not change the current read/write position within the stream,
    /// unless the stream is truncated to before the current position, in which
    /// case the position becomes the new end of the stream.
    pub fn set_len(&mut self, size: u64) -> io::Result<()> {
        if size != self.total_len {
            let new_position = self.current_position().min(size);
            self.flush_changes()?;
            let minialloc = self.minialloc()?;
            resize_stream(
                &mut minialloc.write().unwrap(),
                self.stream_id,
                size,
            )?;
            self.total_len = size;
            self.buf_offset_from_start = new_position;
            self.buffer.clear();
        }
        Ok(())
    }

    fn mark_modified(&mut self) {
        if self.flusher.is_none() {
            let flusher: Box<dyn Flusher<F>> = Box::new(FlushBuffer);
            self.flusher = Some(flusher);
        }
    }
}

impl<F: Read + Seek> BufRead for Stream<F> {
    fn fill_buf(&mut self) -> io::Result<&[u8]> {
        if !self.buffer.has_remaining()
            && self.current_position() < self.total_len
        {
            self.flush_changes()?;
            self.buf_offset_from_start += self.buffer.cursor() as u64;
            // The old window does not belong to the new offset; drop it now,
            // so that a failed refill cannot leave it behind.
            self.buffer.clear();
            let remaining = self.total_len - self.buf_offset_from_start;
            let stream_id = self.stream_id;
            let offset = self.buf_offset_from_start;
            let minialloc = self.minialloc()?;
            self.buffer.refill_with(remaining, |buf| {
                read_data_from_stream(
                    &mut minialloc.write().unwrap(),
                    stream_id,
                    offset,
                    buf,
                )
            })?;
        }
        Ok(self.buffer.remaining_slice())
    }

    fn consume(&mut self, amt: usize) {
        self.buffer.consume(amt);
    }
}

impl<F: Read + Seek> Read for Stream<F> {
    fn read(&mut self, buf: &mut [u8]) -> io::Result<usize> {
        let mut buffered_data = self.fill_buf()?;
        let num_bytes = buffered_data.read(buf)?;
        self.consume(num_bytes);
        Ok(num_bytes)
    }
}

impl<F: Read + Seek> Seek for Stream<F> {
    fn seek(&mut self, pos: SeekFrom) -> io::Result<u64> {
        let new_pos: u64 =
            match pos {
                SeekFrom::Start(delta) => {
                    if delta > self.total_len {
                        invalid_input!(
                        "Cannot seek to {} bytes from start, because stream \
                         length is only {} bytes",
                        delta, self.total_len,
                    );
                    }
                    delta
                }
                SeekFrom::End(delta) => {
                    if delta > 0 {
                        invalid_input!(
                        "Cannot seek to {} bytes past the end of the stream",
                        delta,
                    );
                    } else {
                        let delta = delta.unsigned_abs();
                        if delta > self.total_len {
                            invalid_input!(
                                "Cannot seek to {} bytes before end, because \
                             stream length is only {} bytes",
                                delta,
                                self.total_len,
                            );
                        }
                        self.total_len - delta
                    }
                }
                SeekFrom::Current(delta) => {
                    let old_pos = self.current_position();
                    debug_assert!(old_pos <= self.total_len);
                    if delta < 0 {
                        let delta = delta.unsigned_abs();
                        if delta > old_pos {
                            invalid_input!(
                            "Cannot seek to {} bytes before current position, \
                             which is only {}",
                            delta, old_pos,
                        );
                        }
                        old_pos - delta
                    } else {
                        let delta = delta as u64;
                        let remaining = self.total_len - old_pos;
                        if delta > remaining {
                            invalid_input!(
                            "Cannot seek to {} bytes after current position, \
                             because there are only {} bytes remaining in the \
                             stream",
                            delta, remaining,
                        );
                        }
                        old_pos + delta
                    }
                }
            };
        if new_pos < self.buf_offset_from_start
            || new_pos
                > self.buf_offset_from_start + self.buffer.filled_len() as u64
        {
            self.flush_changes()?;
            self.buf_offset_from_start = new_pos;
            self.buffer.clear();
        } else {
            self.buffer.seek((new_pos - self.buf_offset_from_start) as usize);
        }
        Ok(new_pos)
    }
}

impl<F: Read + Write + Seek> Write for Stream<F> {
    fn write(&mut self, buf: &[u8]) -> io::Result<usize> {
        let num_bytes_written = match self.buffer.write_bytes(buf) {
            Some(count) => count,
            None => {
                self.flush_changes()?;
                self.buf_offset_from_start += self.buffer.cursor() as u64;
                self.buffer.clear();
                self.buffer.write_bytes(buf).unwrap_or(0)
            }
        };
        if num_bytes_written > 0 {
            self.mark_modified();
            self.total_len = self.total_len.max(
                self.buf_offset_from_start + self.buffer.filled_len() as u64,
            );
        }
        Ok(num_bytes_written)
    }

    fn flush(&mut self) -> io::Result<()> {
        self.flush_changes()?;
        let minialloc = self.minialloc()?;
        minialloc.write().unwrap().flush()?;
        Ok(())
    }
}

impl<F> Drop for Stream<F> {
    fn drop(&mut self) {
        let _ = self.flush_changes();
    }
}

//===========================================================================//

trait Flusher<F> {
    fn flush_changes(&self, stream: &mut Stream<F>) -> io::Result<()>;
}

struct FlushBuffer;

impl<F: Read + Write + Seek> Flusher<F> for FlushBuffer {
    fn flush_changes(&self, stream: &mut Stream<F>) -> io::Result<()> {
        let minialloc = stream.minialloc()?;
        write_data_to_stream(
            &mut minialloc.write().unwrap(),
            stream.stream_id,
            stream.buf_offset_from_start,
            stream.buffer.filled_slice(),
        )?;
        debug_assert_eq!(
            minialloc.read().unwrap().dir_entry(stream.stream_id).stream_len,
            stream.total_len
        );
        Ok(())
    }
}

//===========================================================================//

fn read_data_from_stream<F: Read + Seek>(
    minialloc: &mut MiniAllocator<F>,
    stream_id: u32,
    buf_offset_from_start: u64,
    buf: &mut [u8],
) -> io::Result<usize> {
    let (start_sector, stream_len) = {
        let dir_entry = minialloc.dir_entry(stream_id);
        debug_assert_eq!(dir_entry.obj_type, ObjType::Stream);
        (dir_entry.start_sector, dir_entry.stream_len)
    };
    let num_bytes = if buf_offset_from_start >= stream_len {
        0
    } else {
        let remaining = stream_len - buf_offset_from_start;
        if remaining < buf.len() as u64 {
            remaining as usize
        } else {
            buf.len()
        }
    };
    if num_bytes > 0 {
        if stream_len < consts::MINI_STREAM_CUTOFF as u64 {
            let mut chain = minialloc.open_mini_chain(start_sector)?;
            chain.seek(SeekFrom::Start(buf_offset_from_start))?;
            chain.read_exact(&mut buf[..num_bytes])?;
        } else {
            let mut chain =
                minialloc.open_chain(start_sector, SectorInit::Zero)?;
            chain.seek(SeekFrom::Start(buf_offset_from_start))?;
            chain.read_exact(&mut buf[..num_bytes])?;
        }
    }
    Ok(num_bytes)
}

fn write_data_to_stream<F: Read + Write + Seek>(
    minialloc: &mut MiniAllocator<F>,
    stream_id: u32,
    buf_offset_from_start: u64,
    buf: &[u8],
) -> io::Result<()> {
    let (old_start_sector, old_stream_len) = {
        let dir_entry = minialloc.dir_entry(stream_id);
        debug_assert_eq!(dir_entry.obj_type, ObjType::Stream);
        (dir_entry.start_sector, dir_entry.stream_len)
    };
    debug_assert!(buf_offset_from_start <= old_stream_len);
    let new_stream_len =
        old_stream_len.max(buf_offset_from_start + buf.len() as u64);
    let new_start_sector = if old_start_sector == consts::END_OF_CHAIN {
        // Case 1: The stream has no existing chain.  The stream is empty, and
        // we are writing at the start.
        if old_stream_len != 0 {
            invalid_data!(
                "stream has length {} but no start sector",
                old_stream_len
            );
        }
        debug_assert_eq!(buf_offset_from_start, 0);
        if new_stream_len < consts::MINI_STREAM_CUTOFF as u64 {
            // Case 1a: The data we're writing is small enough that it
            // should be placed into a new mini chain.
            let mut chain = minialloc.open_mini_chain(consts::END_OF_CHAIN)?;
            chain.write_all(buf)?;
            chain.start_sector_id()
        } else {
            // Case 1b: The data we're writing is large enough that it should be placed
            // into a new regular chain.
            let mut chain = minialloc
                .open_chain(consts::END_OF_CHAIN, SectorInit::Zero)?;
            chain.write_all(buf)?;
            chain.start_sector_id()
        }
    } else if old_stream_len < consts::MINI_STREAM_CUTOFF as u64 {
        // Case 2: The stream currently exists in a mini chain.
        if new_stream_len < consts::MINI_STREAM_CUTOFF as u64 {
            // Case 2a: After the write, the stream will still be small enough
            // to stay in the mini stream.  Therefore, we should write into
            // this stream's existing mini chain.
            let mut chain = minialloc.open_mini_chain(old_start_sector)?;
            chain.seek(SeekFrom::Start(buf_offset_from_start))?;
            chain.write_all(buf)?;
            debug_assert_eq!(chain.start_sector_id(), old_start_sector);
            old_start_sector
        } else {
            // Case 2b: After the write, the stream will be large enough that
            // it cannot be in the mini stream.  Therefore, we should migrate
            // the stream into a new regular chain.
            debug_assert!(
                buf_offset_from_start < consts::MINI_STREAM_CUTOFF as u64
            );
            let mut tmp = vec![0u8; buf_offset_from_start as usize];
            let mut chain = minialloc.open_mini_chain(old_start_sector)?;
            chain.read_exact(&mut tmp)?;
            chain.free()?;
            let mut chain = minialloc
                .open_chain(consts::END_OF_CHAIN, SectorInit::Zero)?;
            chain.write_all(&tmp)?;
            chain.write_all(buf)?;
            chain.start_sector_id()
        }
    } else {
        // Case 3: The stream currently exists in a regular chain.  After the
        // write, it will of course still be too big to be in the mini stream.
        // Therefore, we should write into this stream's existing chain.
        debug_assert!(new_stream_len >= consts::MINI_STREAM_CUTOFF as u64);
        let mut chain =
            minialloc.open_chain(old_start_sector, SectorInit::Zero)?;
        chain.seek(SeekFrom::Start(buf_offset_from_start))?;
        chain.write_all(buf)?;
        debug_assert_eq!(chain.start_sector_id(), old_start_sector);
        old_start_sector
    };
    // Update the directory entry for this stream.
    minialloc.with_dir_entry_mut(stream_id, |dir_entry| {
        dir_entry.start_sector = new_start_sector;
        dir_entry.stream_len = new_stream_len;
    })
}

/// If `new_stream_len` is less than the stream's current length, then the
/// stream will be truncated.  If it is greater than the stream's current size,
/// then the stream will be padded with zero bytes.
fn resize_stream<F: Read + Write + Seek>(
    minialloc: &mut MiniAllocator<F>,
    stream_id: u32,
    new_stream_len: u64,
) -> io::Result<()> {
    let (old_start_sector, old_stream_len) = {
        let dir_entry = minialloc.dir_entry(stream_id);
        debug_assert_eq!(dir_entry.obj_type, ObjType::Stream);
        (dir_entry.start_sector, dir_entry.stream_len)
    };
    // No stream can have more sectors than a compound file can address.
    let max_stream_len = consts::MAX_REGULAR_SECTOR as u64
        * minialloc.version().sector_len() as u64;
    if new_stream_len > max_stream_len {
        invalid_input!(
            "Cannot resize stream to {} bytes; the maximum is {} bytes",
            new_stream_len,
            max_stream_len
        );
    }
    let new_start_sector = if old_start_sector == consts::END_OF_CHAIN {
        // Case 1: The stream has no existing chain.  We will allocate a new
        // chain that is all zeroes.
        if old_stream_len != 0 {
            invalid_data!(
                "stream has length {} but no start sector",
                old_stream_len
            );
        }
        if new_stream_len < consts::MINI_STREAM_CUTOFF as u64 {
            // Case 1a: The new length is small enough that it should be placed
            // into a new mini chain.
            let mut chain = minialloc.open_mini_chain(consts::END_OF_CHAIN)?;
            chain.set_len(new_stream_len)?;
            chain.start_sector_id()
        } else {
            // Case 1b: The new length is large enough that it should be placed
            // into a new regular chain.
            let mut chain = minialloc
                .open_chain(consts::END_OF_CHAIN, SectorInit::Zero)?;
            chain.set_len(new_stream_len)?;
            chain.start_sector_id()
        }
    } else if old_stream_len < consts::MINI_STREAM_CUTOFF as u64 {
        // Case 2: The stream currently exists in a mini chain.
        if new_stream_len == 0 {
            // Case 2a: The new length is zero.  Free the existing mini chain.
            minialloc.free_mini_chain(old_start_sector)?;
            consts::END_OF_CHAIN
        } else if new_stream_len < consts::MINI_STREAM_CUTOFF as u64 {
            // Case 2b: The new length is still small enough to fit in a mini
            // chain.  Therefore, we just need to adjust the length of the
            // existing chain.
            let mut chain = minialloc.open_mini_chain(old_start_sector)?;
            chain.set_len(new_stream_len)?;
            debug_assert_eq!(chain.start_sector_id(), old_start_sector);
            old_start_sector
        } else {
            // Case 2c: The new length is too large to fit in a mini chain.
            // Therefore, we should migrate the stream into a new regular
            // chain.
            let mut tmp = vec![0u8; old_stream_len as usize];
            let mut chain = minialloc.open_mini_chain(old_start_sector)?;
            chain.read_exact(&mut tmp)?;
            chain.free()?;
            let mut chain = minialloc
                .open_chain(consts::END_OF_CHAIN, SectorInit::Zero)?;
            chain.write_all(&tmp)?;
            chain.set_len(new_stream_len)?;
            chain.start_sector_id()
        }
    } else {
        // Case 3: The stream currently exists in a regular chain.
        if new_stream_len == 0 {
            // Case 3a: The new length is zero.  Free the existing chain.
            minialloc.free_chain(old_start_sector)?;
            consts::END_OF_CHAIN
        } else if new_stream_len < consts::MINI_STREAM_CUTOFF as u64 {
            // Case 3b: The new length is small enough to fit in a mini chain.
            // Therefore, we should migrate the stream into a new mini chain.
            debug_assert!(new_stream_len < old_stream_len);
            let mut tmp = vec![0u8; new_stream_len as usize];
            let mut chain =
                minialloc.open_chain(old_start_sector, SectorInit::Zero)?;
            chain.read_exact(&mut tmp)?;
            chain.free()?;
            let mut chain = minialloc.open_mini_chain(consts::END_OF_CHAIN)?;
            chain.write_all(&tmp)?;
            chain.start_sector_id()
        } else {
            // Case 3c: The new length is still too large to fit in a mini
            // chain.  Therefore, we just need to adjust the length of the
            // existing chain.
            let mut chain =
                minialloc.open_chain(old_start_sector, SectorInit::Zero)?;
            chain.set_len(new_stream_len)?;
            debug_assert_eq!(chain.start_sector_id(), old_start_sector);
            old_start_sector
        }
    };
    // Update the directory entry for this stream.
    minialloc.with_dir_entry_mut(stream_id, |dir_entry| {
        dir_entry.start_sector = new_start_sector;
        dir_entry.stream_len = new_stream_len;
    })
}

//===========================================================================//
