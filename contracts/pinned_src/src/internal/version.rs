use crate::internal::consts;

// ========================================================================= //

/// The CFB format version to use.
#[derive(Clone, Copy, Debug, Eq, Hash, Ord, PartialEq, PartialOrd)]
pub enum Version {
    /// Version 3, which uses 512-byte sectors.
    V3,
    /// Version 4, which uses 4096-byte sectors.
    V4,
}

impl Version {
    /// Returns the version enum for the given version number, or `None`.
    pub fn from_number(number: u16) -> Option<Version> {
        match number {
            3 => Some(Version::V3),
            4 => Some(Version::V4),
            _ => None,
        }
    }

    /// Returns the version number for this version.
    pub fn number(self) -> u16 {
        match self {
            Version::V3 => 3,
            Version::V4 => 4,
        }
    }

    /// Returns the sector shift used in this version.
    pub fn sector_shift(self) -> u16 {
        match self {
            Version::V3 => 9,  // 512-byte sectors
            Version::V4 => 12, // 4096-byte sectors
        }
    }

    /// Returns the length of sectors used in this version.
    ///
    /// ```
    /// use cfb::Version;
    /// assert_eq!(Version::V3.sector_len(), 512);
    /// assert_eq!(Version::V4.sector_len(), 4096);
    /// ```
    pub fn sector_len(self) -> usize {
        1 << (self.sector_shift() as usize)
    }

    /// Returns the bitmask used for reading stream lengths in this version.
    pub fn stream_len_mask(self) -> u64 {
        match self {
            Version::V3 => 0xffffffff,
            Version::V4 => 0xffffffffffffffff,
        }
    }

    /// Returns the number of directory entries per sector in this version.
    pub fn dir_entries_per_sector(self) -> usize {
        self.sector_len() / consts::DIR_ENTRY_LEN
    }
}

// ========================================================================= //

#[cfg(test)]
mod tests {
    use super::Version;

    #[test]
    fn number_round_trip() {
        for &version in &[Version::V3, Version::V4] {
            assert_eq!(Version::from_number(version.number()), Some(version));
        }
    }
}

// ========================================================================= //
