use crate::internal::{consts, MiniAllocator};
use std::io::{self, Read, Seek, SeekFrom, Write};

//===========================================================================//

pub struct MiniChain<'a, F: 'a> {
    minialloc: &'a mut MiniAllocator<F>,
    sector_ids: Vec<u32>,
    offset_from_start: u64,
}

impl<'a, F> MiniChain<'a, F> {
    pub fn new(
        minialloc: &'a mut MiniAllocator<F>,
        start_sector_id: u32,
    ) -> io::Result<MiniChain<'a, F>> {
        let mut sector_ids = Vec::<u32>::new();
        let mut current_sector_id = start_sector_id;
        let first_sector_id = start_sector_id;
        while current_sector_id != consts::END_OF_CHAIN {
            sector_ids.push(current_sector_id);
            current_sector_id =
                minialloc.next_mini_sector(current_sector_id)?;
            if current_sector_id == first_sector_id {
                invalid_data!(
                    "Minichain contained duplicate sector id {}",
                    current_sector_id
                );
            }
        }
        Ok(MiniChain { minialloc, sector_ids, offset_from_start: 0 })
    }

    pub fn start_sector_id(&self) -> u32 {
        self.sector_ids.first().copied().unwrap_or(consts::END_OF_CHAIN)
    }

    pub fn len(&self) -> u64 {
        (consts::MINI_SECTOR_LEN as u64) * (self.sector_ids.len() as u64)
    }
}

impl<'a, F: Read + Write + Seek> MiniChain<'a, F> {
    /// Resizes the chain to the minimum number of sectors large enough to old
    /// `new_len` bytes, allocating or freeing sectors as needed.
    pub fn set_len(&mut self, new_len: u64) -> io::Result<()> {
        debug_assert!(new_len < consts::MINI_STREAM_CUTOFF as u64);
        let sector_len = consts::MINI_SECTOR_LEN as u64;
        let new_num_sectors =
            ((sector_len + new_len - 1) / sector_len) as usize;
        if new_num_sectors == 0 {
            if let Some(&start_sector) = self.sector_ids.first() {
                self.minialloc.free_mini_chain(start_sector)?;
            }
        } else if new_num_sectors <= self.sector_ids.len() {
            if new_num_sectors < self.sector_ids.len() {
                self.minialloc.free_mini_chain_after(
                    self.sector_ids[new_num_sectors - 1],
                )?;
            }
            // Zero the remainder of the final mini sector, so that growing
            // the chain again later exposes only zeros.
            let remainder = new_num_sectors as u64 * sector_len - new_len;
            if remainder > 0 {
                let mut sector = self.minialloc.seek_within_mini_sector(
                    self.sector_ids[new_num_sectors - 1],
                    sector_len - remainder,
                )?;
                sector.write_all(&vec![0u8; remainder as usize])?;
            }
        } else {
            for _ in self.sector_ids.len()..new_num_sectors {
                let new_sector_id =
                    if let Some(&last_sector_id) = self.sector_ids.last() {
                        self.minialloc.extend_mini_chain(last_sector_id)?
                    } else {
                        self.minialloc.begin_mini_chain()?
                    };
                self.sector_ids.push(new_sector_id);
            }
        }
        Ok(())
    }

    pub fn free(self) -> io::Result<()> {
        self.minialloc.free_mini_chain(self.start_sector_id())
    }
}

impl<'a, F> Seek for MiniChain<'a, F> {
    fn seek(&mut self, pos: SeekFrom) -> io::Result<u64> {
        let length = self.len();
        let new_offset = match pos {
            SeekFrom::Start(delta) => delta as i64,
            SeekFrom::End(delta) => delta + length as i64,
            SeekFrom::Current(delta) => delta + self.offset_from_start as i64,
        };
        if new_offset < 0 || (new_offset as u64) > length {
            invalid_input!(
                "Cannot seek to {}, chain length is {} bytes",
                new_offset,
                length
            );
        }
        self.offset_from_start = new_offset as u64;
        Ok(self.offset_from_start)
    }
}

impl<'a, F: Read + Seek> Read for MiniChain<'a, F> {
    fn read(&mut self, buf: &mut [u8]) -> io::Result<usize> {
        let total_len = self.len();
        debug_assert!(self.offset_from_start <= total_len);
        let remaining_in_chain = total_len - self.offset_from_start;
        let max_len = remaining_in_chain.min(buf.len() as u64) as usize;
        if max_len == 0 {
            return Ok(0);
        }
        let sector_len = consts::MINI_SECTOR_LEN as u64;
        let current_sector_index =
            (self.offset_from_start / sector_len) as usize;
        debug_assert!(current_sector_index < self.sector_ids.len());
        let current_sector_id = self.sector_ids[current_sector_index];
        let offset_within_sector = self.offset_from_start % sector_len;
        let mut sector = self.minialloc.seek_within_mini_sector(
            current_sector_id,
            offset_within_sector,
        )?;
        let bytes_read = sector.read(&mut buf[0..max_len])?;
        self.offset_from_start += bytes_read as u64;
        debug_assert!(self.offset_from_start <= total_len);
        Ok(bytes_read)
    }
}

impl<'a, F: Read + Write + Seek> Write for MiniChain<'a, F> {
    fn write(&mut self, buf: &[u8]) -> io::Result<usize> {
        if buf.is_empty() {
            return Ok(0);
        }
        let mut total_len = self.len();
        let sector_len = consts::MINI_SECTOR_LEN as u64;
        if self.offset_from_start == total_len {
            let new_sector_id =
                if let Some(&last_sector_id) = self.sector_ids.last() {
                    self.minialloc.extend_mini_chain(last_sector_id)?
                } else {
                    self.minialloc.begin_mini_chain()?
                };
            self.sector_ids.push(new_sector_id);
            total_len += sector_len;
            debug_assert_eq!(total_len, self.len());
        }
        let current_sector_index =
            (self.offset_from_start / sector_len) as usize;
        debug_assert!(current_sector_index < self.sector_ids.len());
        let current_sector_id = self.sector_ids[current_sector_index];
        let offset_within_sector = self.offset_from_start % sector_len;
        let mut sector = self.minialloc.seek_within_mini_sector(
            current_sector_id,
            offset_within_sector,
        )?;
        let bytes_written = sector.write(buf)?;
        self.offset_from_start += bytes_written as u64;
        debug_assert!(self.offset_from_start <= total_len);
        Ok(bytes_written)
    }

    fn flush(&mut self) -> io::Result<()> {
        self.minialloc.flush()
    }
}

//===========================================================================//
