use crate::{ReadLeNumber, WriteLeNumber};
use std::io::{self, Read, Write};
use web_time::{Duration, SystemTime, UNIX_EPOCH};

//===========================================================================//

/// A CFB file timestamp.  This is represented as the number of 100-nanosecond
/// intervals since January 1, 1601 UTC.
#[derive(Clone, Copy, Debug, Eq, PartialEq)]
pub struct Timestamp(u64);

impl Timestamp {
    pub(crate) fn value(self) -> u64 {
        self.0
    }

    /// Returns a timestamp representing the CFB file epoch of January 1, 1601
    /// UTC.  This is an appropriate value to use for an uninitialized
    /// timestamp.
    pub fn zero() -> Timestamp {
        Timestamp(0)
    }

    /// Returns a timestamp representing the current system time.
    pub fn now() -> Timestamp {
        Timestamp::from_system_time(SystemTime::now())
    }

    /// Returns a timestamp representing the given system time.
    pub fn from_system_time(system_time: SystemTime) -> Timestamp {
        Timestamp(timestamp_from_system_time(system_time))
    }

    /// Returns the local system time that this timestamp represents.
    pub fn to_system_time(self) -> SystemTime {
        system_time_from_timestamp(self.0)
    }

    pub fn read_from<R: Read>(reader: &mut R) -> io::Result<Timestamp> {
        Ok(Timestamp(reader.read_le_u64()?))
    }

    pub fn write_to<W: Write>(self, writer: &mut W) -> io::Result<()> {
        writer.write_le_u64(self.0)
    }
}

//===========================================================================//

/// The CFB timestamp value for the Unix epoch (Jan 1, 1970 UTC).
const UNIX_EPOCH_TIMESTAMP: u64 = 116444736000000000;

/// Converts a local `SystemTime` to a CFB file timestamp value.
fn timestamp_from_system_time(system_time: SystemTime) -> u64 {
    match system_time.duration_since(UNIX_EPOCH) {
        Ok(duration) => {
            let delta = duration_to_timestamp_delta(duration);
            UNIX_EPOCH_TIMESTAMP.saturating_add(delta)
        }
        Err(err) => {
            let delta = duration_to_timestamp_delta(err.duration());
            UNIX_EPOCH_TIMESTAMP.saturating_sub(delta)
        }
    }
}

/// Converts a CFB file timestamp value to a local `SystemTime`.
fn system_time_from_timestamp(timestamp: u64) -> SystemTime {
    // The maximum range of SystemTime varies by system, and some systems
    // (e.g. 32-bit Linux) can't represent, say, a zero CFB timestamp.  So we
    // center our calculations around UNIX_EPOCH (the one value we can be sure
    // that SystemTime can represent), and use checked_add and checked_sub to
    // avoid panicking on overflow.
    //
    // TODO: If SystemTime ever gains saturating_add and saturing_sub (see
    // https://github.com/rust-lang/rust/issues/71224) we should use those
    // instead.
    let system_time = if timestamp >= UNIX_EPOCH_TIMESTAMP {
        UNIX_EPOCH.checked_add(timestamp_delta_to_duration(
            timestamp - UNIX_EPOCH_TIMESTAMP,
        ))
    } else {
        UNIX_EPOCH.checked_sub(timestamp_delta_to_duration(
            UNIX_EPOCH_TIMESTAMP - timestamp,
        ))
    };
    // If overflow does occur, just return UNIX_EPOCH; this will be totally
    // wrong, but at least it will allow us to continue reading the CFB file
    // without panicking.
    system_time.unwrap_or(UNIX_EPOCH)
}

fn duration_to_timestamp_delta(duration: Duration) -> u64 {
    duration
        .as_secs()
        .saturating_mul(10_000_000)
        .saturating_add((duration.subsec_nanos() / 100) as u64)
}

fn timestamp_delta_to_duration(delta: u64) -> Duration {
    Duration::new(delta / 10_000_000, (delta % 10_000_000) as u32 * 100)
}

//===========================================================================//

#[cfg(test)]
mod tests {
    use super::{
        duration_to_timestamp_delta, system_time_from_timestamp,
        timestamp_delta_to_duration, timestamp_from_system_time,
        UNIX_EPOCH_TIMESTAMP,
    };
    use web_time::{Duration, UNIX_EPOCH};

    #[test]
    fn extreme_timestamp_delta() {
        // The maximum representable CFB timestamp:
        let timestamp = u64::MAX;
        let duration = timestamp_delta_to_duration(timestamp);
        assert_eq!(duration.as_secs(), 1844674407370);
        assert_eq!(duration.subsec_nanos(), 955161500);
        assert_eq!(duration_to_timestamp_delta(duration), timestamp);
    }

    #[test]
    fn extreme_duration() {
        // The maximum representable duration:
        let duration = Duration::new(u64::MAX, 999_999_999);
        // This duration will not fit in a 64-bit CFB timestamp delta.  Rather
        // than overflow, we should return a saturated result.
        assert_eq!(duration_to_timestamp_delta(duration), u64::MAX);
    }

    #[test]
    fn unix_epoch() {
        assert_eq!(
            UNIX_EPOCH_TIMESTAMP,
            timestamp_from_system_time(UNIX_EPOCH)
        );
        assert_eq!(
            system_time_from_timestamp(UNIX_EPOCH_TIMESTAMP),
            UNIX_EPOCH
        );
    }

    #[test]
    fn after_unix_epoch() {
        let sat_18_mar_2017_at_18_46_36_utc =
            UNIX_EPOCH + Duration::from_secs(1489862796);
        assert_eq!(
            timestamp_from_system_time(sat_18_mar_2017_at_18_46_36_utc),
            131343363960000000,
        );
        assert_eq!(
            system_time_from_timestamp(131343363960000000),
            sat_18_mar_2017_at_18_46_36_utc
        );
    }

    #[test]
    fn before_unix_epoch() {
        let sun_20_jul_1969_at_20_17_00_utc =
            UNIX_EPOCH - Duration::from_secs(14182980);
        assert_eq!(
            timestamp_from_system_time(sun_20_jul_1969_at_20_17_00_utc),
            116302906200000000,
        );
        assert_eq!(
            system_time_from_timestamp(116302906200000000),
            sun_20_jul_1969_at_20_17_00_utc
        );
    }

    #[test]
    fn extreme_timestamps() {
        // If the system we're on can't represent these timestamps in a
        // SystemTime, then we'll get incorrect values, but we shouldn't panic.
        let min_time = system_time_from_timestamp(u64::MIN);
        let max_time = system_time_from_timestamp(u64::MAX);
        assert!(min_time <= max_time);
    }
}

//===========================================================================//
