const STREAM_BUFFER_MIN: usize = 1024;
const STREAM_BUFFER_GROWTH_FACTOR: usize = 4;

pub(crate) const DEFAULT_STREAM_MAX_BUFFER_SIZE: usize = 1024 * 1024;

use std::convert::TryFrom;
use std::io::{self, Write};

/// A buffer for stream data that grows up to a configurable maximum.
///
/// The buffer starts at a minimum size, grows by a fixed factor, and never
/// exceeds the configured max.
pub(crate) struct StreamBuffer {
    data: Vec<u8>,
    pos: usize,
    cap: usize,
    max_size: usize,
}

impl Default for StreamBuffer {
    fn default() -> Self {
        StreamBuffer::new(DEFAULT_STREAM_MAX_BUFFER_SIZE)
    }
}

impl StreamBuffer {
    pub(crate) fn new(max_buffer_size: usize) -> StreamBuffer {
        StreamBuffer {
            data: vec![0; STREAM_BUFFER_MIN],
            pos: 0,
            cap: 0,
            max_size: max_buffer_size.max(STREAM_BUFFER_MIN),
        }
    }

    pub(crate) fn cursor(&self) -> usize {
        self.pos
    }

    pub(crate) fn filled_len(&self) -> usize {
        self.cap
    }

    pub(crate) fn has_remaining(&self) -> bool {
        self.pos < self.cap
    }

    pub(crate) fn remaining_slice(&self) -> &[u8] {
        &self.data[self.pos..self.cap]
    }

    pub(crate) fn filled_slice(&self) -> &[u8] {
        &self.data[..self.cap]
    }

    pub(crate) fn refill_with<F>(
        &mut self,
        remaining: u64,
        fill: F,
    ) -> io::Result<()>
    where
        F: FnOnce(&mut [u8]) -> io::Result<usize>,
    {
        self.pos = 0;
        self.grow_for_read_remaining(remaining);
        let cap = fill(&mut self.data)?;
        self.set_cap(cap);
        Ok(())
    }

    /// Writes bytes into the buffer at the current cursor.
    /// Returns the number of bytes written, or None if the buffer cannot grow.
    pub(crate) fn write_bytes(&mut self, input: &[u8]) -> Option<usize> {
        debug_assert!(self.pos <= self.data.len());
        if self.pos >= self.data.len() && !self.grow() {
            return None;
        }
        let written = (&mut self.data[self.pos..]).write(input).unwrap_or(0);
        self.pos += written;
        debug_assert!(self.pos <= self.data.len());
        if self.cap < self.pos {
            self.cap = self.pos;
        }
        Some(written)
    }

    /// Moves the cursor to an absolute position within the buffer.
    pub(crate) fn seek(&mut self, pos: usize) {
        debug_assert!(pos <= self.data.len());
        self.pos = pos;
        if self.cap < self.pos {
            self.cap = self.pos;
        }
    }

    fn set_cap(&mut self, cap: usize) {
        debug_assert!(cap <= self.data.len());
        self.cap = cap;
        if self.pos > self.cap {
            self.pos = self.cap;
        }
    }

    /// Clears the filled region and resets the cursor to 0.
    pub(crate) fn clear(&mut self) {
        self.pos = 0;
        self.cap = 0;
    }

    /// Consumes bytes from the filled region, asserting it stays in-bounds.
    pub(crate) fn consume(&mut self, amt: usize) {
        debug_assert!(self.pos + amt <= self.cap);
        self.pos += amt;
    }

    /// Attempts to grow the buffer, returning false if at max size.
    fn grow(&mut self) -> bool {
        if self.data.len() >= self.max_size {
            return false;
        }
        let new_len =
            (self.data.len() * STREAM_BUFFER_GROWTH_FACTOR).min(self.max_size);
        self.data.resize(new_len, 0);
        true
    }

    fn grow_for_read_remaining(&mut self, remaining: u64) {
        let current_len = self.data.len() as u64;
        if remaining <= current_len {
            return;
        }
        let remaining_usize =
            usize::try_from(remaining).unwrap_or(self.max_size);
        let desired =
            remaining_usize.min(self.max_size).max(STREAM_BUFFER_MIN);
        self.data.resize(desired, 0);
    }

    #[cfg(test)]
    fn data_len(&self) -> usize {
        self.data.len()
    }
}

#[cfg(test)]
mod tests {
    use super::*;

    #[test]
    fn stream_buffer_advance() {
        let mut buffer = StreamBuffer::default();
        buffer.refill_with(8, |_| Ok(8)).unwrap();
        buffer.consume(3);
        assert_eq!(buffer.cursor(), 3);
        buffer.consume(5);
        assert_eq!(buffer.cursor(), 8);
    }

    #[test]
    #[should_panic]
    fn stream_buffer_consume_panics_past_cap() {
        let mut buffer = StreamBuffer::default();
        buffer.refill_with(4, |_| Ok(4)).unwrap();
        buffer.consume(5);
    }

    #[test]
    fn stream_buffer_grows_until_max() {
        const STREAM_BUFFER_MAX: usize = 1024 * 1024;
        let mut buffer = StreamBuffer::new(STREAM_BUFFER_MAX);
        let mut expected = STREAM_BUFFER_MIN;
        while expected < STREAM_BUFFER_MAX {
            assert!(buffer.grow());
            expected = (expected * STREAM_BUFFER_GROWTH_FACTOR)
                .min(STREAM_BUFFER_MAX);
            assert_eq!(buffer.data_len(), expected);
        }
        assert!(!buffer.grow());
        assert_eq!(buffer.data_len(), STREAM_BUFFER_MAX);
    }

    #[test]
    fn stream_buffer_respects_custom_max() {
        const CUSTOM_MAX: usize = 1024 * 4;
        let mut buffer = StreamBuffer::new(CUSTOM_MAX);
        assert!(buffer.grow());
        assert_eq!(buffer.data_len(), CUSTOM_MAX);
        assert!(!buffer.grow());
    }

    #[test]
    fn stream_buffer_refill_resets_cursor() {
        let mut buffer = StreamBuffer::default();
        buffer.seek(5);
        buffer.refill_with(3, |_| Ok(3)).unwrap();
        assert_eq!(buffer.cursor(), 0);
        assert_eq!(buffer.filled_len(), 3);
    }

    #[test]
    fn stream_buffer_seek_expands_cap() {
        let mut buffer = StreamBuffer::default();
        buffer.seek(4);
        assert_eq!(buffer.cursor(), 4);
        assert_eq!(buffer.filled_len(), 4);
    }

    #[test]
    fn stream_buffer_seek_allows_len_boundary() {
        let mut buffer = StreamBuffer::default();
        let len = STREAM_BUFFER_MIN;
        buffer.seek(len);
        assert_eq!(buffer.cursor(), len);
        assert_eq!(buffer.filled_len(), len);
    }

    #[test]
    fn stream_buffer_set_cap_allows_len_boundary() {
        let mut buffer = StreamBuffer::default();
        let len = STREAM_BUFFER_MIN;
        buffer.refill_with(len as u64, |_| Ok(len)).unwrap();
        assert_eq!(buffer.filled_len(), len);
    }

    #[test]
    fn stream_buffer_grow_preserves_pos_and_cap() {
        let mut buffer = StreamBuffer::default();
        buffer.refill_with(12, |_| Ok(12)).unwrap();
        buffer.seek(8);
        assert!(buffer.grow());
        assert_eq!(buffer.cursor(), 8);
        assert_eq!(buffer.filled_len(), 12);
    }

    #[test]
    fn stream_buffer_clamps_max_below_min() {
        let mut buffer = StreamBuffer::new(1);
        assert_eq!(buffer.data_len(), STREAM_BUFFER_MIN);
        assert!(!buffer.grow());
    }

    #[test]
    fn stream_buffer_refill_error_keeps_cap() {
        let mut buffer = StreamBuffer::default();
        buffer.refill_with(4, |_| Ok(4)).unwrap();
        buffer.seek(2);
        let result = buffer.refill_with(4, |_| Err(io::Error::other("fail")));
        assert!(result.is_err());
        assert_eq!(buffer.cursor(), 0);
        assert_eq!(buffer.filled_len(), 4);
    }

    #[test]
    fn stream_buffer_write_bytes_returns_none_when_full() {
        let mut buffer = StreamBuffer::new(STREAM_BUFFER_MIN);
        buffer.seek(STREAM_BUFFER_MIN);
        assert!(buffer.write_bytes(&[1]).is_none());
        assert_eq!(buffer.cursor(), STREAM_BUFFER_MIN);
        assert_eq!(buffer.filled_len(), STREAM_BUFFER_MIN);
    }

    #[test]
    fn stream_buffer_remaining_slice_matches_advance() {
        let mut buffer = StreamBuffer::default();
        buffer.refill_with(6, |_| Ok(6)).unwrap();
        buffer.consume(2);
        assert_eq!(buffer.remaining_slice().len(), 4);
        buffer.consume(4);
        assert!(buffer.remaining_slice().is_empty());
    }

    #[test]
    fn write_buffer_grows_when_full() {
        let mut buffer = StreamBuffer::new(STREAM_BUFFER_MIN * 8);
        let input = vec![0u8; STREAM_BUFFER_MIN];
        assert_eq!(buffer.write_bytes(&input), Some(STREAM_BUFFER_MIN));
        let initial_len = buffer.data_len();
        assert_eq!(buffer.write_bytes(&[1]), Some(1));
        let grown_len = buffer.data_len();

        assert_eq!(initial_len, STREAM_BUFFER_MIN);
        assert_eq!(grown_len, STREAM_BUFFER_MIN * 4);
    }

    #[test]
    fn read_buffer_aggressively_grows_on_refill() {
        let mut buffer = StreamBuffer::new(STREAM_BUFFER_MIN * 8);
        let initial_len = buffer.data_len();
        let remaining = (STREAM_BUFFER_MIN * 64) as u64;
        buffer.refill_with(remaining, |buf| Ok(buf.len())).unwrap();
        let grown_len = buffer.data_len();

        assert_eq!(initial_len, STREAM_BUFFER_MIN);
        assert_eq!(grown_len, STREAM_BUFFER_MIN * 8);
    }
}
