use std::io::{self, Seek, SeekFrom, Write};
use std::mem::size_of;

use fnv::FnvHashSet;

use crate::internal::{
    consts, Chain, DirEntry, Directory, MiniChain, ObjType, Sector,
    SectorInit, Validation, Version,
};
use crate::WriteLeNumber;

//===========================================================================//

macro_rules! malformed {
    ($e:expr) => { invalid_data!("Malformed MiniFAT ({})", $e) };
    ($fmt:expr, $($arg:tt)+) => {
        invalid_data!("Malformed MiniFAT ({})", format!($fmt, $($arg)+))
    };
}

//===========================================================================//

/// A wrapper around the directory manager that additionally provides
/// mini-sector allocation via the MiniFAT.
pub struct MiniAllocator<F> {
    directory: Directory<F>,
    minifat: Vec<u32>,
    minifat_start_sector: u32,
    free_mini_sectors: Vec<u32>,
}

impl<F> MiniAllocator<F> {
    pub fn new(
        directory: Directory<F>,
        minifat: Vec<u32>,
        minifat_start_sector: u32,
        validation: Validation,
    ) -> io::Result<MiniAllocator<F>> {
        let mut minialloc = MiniAllocator {
            directory,
            minifat,
            minifat_start_sector,
            free_mini_sectors: Vec::new(),
        };
        minialloc.validate(validation)?;
        Ok(minialloc)
    }

    pub fn version(&self) -> Version {
        self.directory.version()
    }

    pub fn inner(&self) -> &F {
        self.directory.inner()
    }

    pub fn next_mini_sector(&self, sector_id: u32) -> io::Result<u32> {
        let index = sector_id as usize;
        if index >= self.minifat.len() {
            invalid_data!(
                "Found reference to mini sector {}, but MiniFAT has only {} \
                 entries",
                index,
                self.minifat.len()
            );
        }
        let next_id = self.minifat[index];
        if next_id != consts::END_OF_CHAIN
            && (next_id > consts::MAX_REGULAR_SECTOR
                || next_id as usize >= self.minifat.len())
        {
            invalid_data!("next_id ({}) is invalid", next_id);
        }
        Ok(next_id)
    }

    pub fn into_inner(self) -> F {
        self.directory.into_inner()
    }

    pub fn stream_id_for_name_chain(&self, names: &[&str]) -> Option<u32> {
        self.directory.stream_id_for_name_chain(names)
    }

    pub fn open_chain(
        &mut self,
        start_sector_id: u32,
        init: SectorInit,
    ) -> io::Result<Chain<'_, F>> {
        self.directory.open_chain(start_sector_id, init)
    }

    pub fn open_mini_chain(
        &mut self,
        start_sector_id: u32,
    ) -> io::Result<MiniChain<'_, F>> {
        MiniChain::new(self, start_sector_id)
    }

    pub fn root_dir_entry(&self) -> &DirEntry {
        self.directory.root_dir_entry()
    }

    pub fn dir_entry(&self, stream_id: u32) -> &DirEntry {
        self.directory.dir_entry(stream_id)
    }

    fn validate(&mut self, validation: Validation) -> io::Result<()> {
        let root_entry = self.directory.root_dir_entry();
        let root_stream_mini_sectors =
            root_entry.stream_len / (consts::MINI_SECTOR_LEN as u64);
        if root_stream_mini_sectors < (self.minifat.len() as u64) {
            if validation.is_strict() {
                malformed!(
                "MiniFAT has {} entries, but root stream has only {} mini \
                 sectors",
                self.minifat.len(),
                root_stream_mini_sectors
            );
            } else {
                self.minifat.truncate(root_stream_mini_sectors as usize);
            }
        }
        let mut pointees = FnvHashSet::default();
        for (from_mini_sector, &to_mini_sector) in
            self.minifat.iter().enumerate()
        {
            if to_mini_sector <= consts::MAX_REGULAR_SECTOR {
                if to_mini_sector as usize >= self.minifat.len() {
                    malformed!(
                        "MiniFAT has {} entries, but mini sector {} points to \
                         {}",
                        self.minifat.len(),
                        from_mini_sector,
                        to_mini_sector
                    );
                }
                if pointees.contains(&to_mini_sector) {
                    malformed!(
                        "mini sector {} pointed to twice",
                        to_mini_sector
                    );
                }
                pointees.insert(to_mini_sector);
            }
        }

        self.free_mini_sectors.clear();
        for (idx, &entry) in self.minifat.iter().enumerate() {
            if entry == consts::FREE_SECTOR {
                self.free_mini_sectors.push(idx as u32);
            }
        }
        Ok(())
    }
}

impl<F: Seek> MiniAllocator<F> {
    pub fn seek_within_mini_sector(
        &mut self,
        mini_sector: u32,
        offset_within_mini_sector: u64,
    ) -> io::Result<Sector<'_, F>> {
        debug_assert!(
            offset_within_mini_sector < consts::MINI_SECTOR_LEN as u64
        );
        let mini_stream_start_sector =
            self.directory.root_dir_entry().start_sector;
        let chain = self
            .directory
            .open_chain(mini_stream_start_sector, SectorInit::Fat)?;
        chain.into_subsector(
            mini_sector,
            consts::MINI_SECTOR_LEN,
            offset_within_mini_sector,
        )
    }
}

impl<F: Write + Seek> MiniAllocator<F> {
    /// Given the start sector of a chain, deallocates the entire chain.
    pub fn free_chain(&mut self, start_sector_id: u32) -> io::Result<()> {
        self.directory.free_chain(start_sector_id)
    }

    /// Inserts a new directory entry into the tree under the specified parent
    /// entry, then returns the new stream ID.
    pub fn insert_dir_entry(
        &mut self,
        parent_id: u32,
        name: &str,
        obj_type: ObjType,
    ) -> io::Result<u32> {
        self.directory.insert_dir_entry(parent_id, name, obj_type)
    }

    /// Removes a directory entry from the tree and deallocates it.
    pub fn remove_dir_entry(
        &mut self,
        parent_id: u32,
        name: &str,
    ) -> io::Result<()> {
        self.directory.remove_dir_entry(parent_id, name)
    }

    /// Calls the given function with a mutable reference to the specified
    /// directory entry, then writes the updated directory entry to the
    /// underlying file once the function returns.
    pub fn with_dir_entry_mut<W>(
        &mut self,
        stream_id: u32,
        func: W,
    ) -> io::Result<()>
    where
        W: FnOnce(&mut DirEntry),
    {
        self.directory.with_dir_entry_mut(stream_id, func)
    }

    /// Allocates a new mini chain with one sector, and returns the starting
    /// sector number.
    pub fn begin_mini_chain(&mut self) -> io::Result<u32> {
        self.allocate_mini_sector(consts::END_OF_CHAIN)
    }

    /// Given the starting mini sector (or any internal mini sector) of a mini
    /// chain, extends the end of that chain by one mini sector and returns the
    /// new mini sector number, updating the MiniFAT as necessary.
    pub fn extend_mini_chain(
        &mut self,
        start_mini_sector: u32,
    ) -> io::Result<u32> {
        debug_assert_ne!(start_mini_sector, consts::END_OF_CHAIN);
        let mut last_mini_sector = start_mini_sector;
        let mut num_steps = 0;
        loop {
            let next = self.next_mini_sector(last_mini_sector)?;
            if next == consts::END_OF_CHAIN {
                break;
            }
            last_mini_sector = next;
            num_steps += 1;
            if num_steps > self.minifat.len() {
                malformed!(
                    "mini chain starting at mini sector {} has a loop",
                    start_mini_sector
                );
            }
        }
        let new_mini_sector =
            self.allocate_mini_sector(consts::END_OF_CHAIN)?;
        self.set_minifat(last_mini_sector, new_mini_sector)?;
        Ok(new_mini_sector)
    }

    /// Allocates a new entry in the MiniFAT, sets its value to `value`, and
    /// returns the new mini sector number.
    fn allocate_mini_sector(&mut self, value: u32) -> io::Result<u32> {
        // If there's an existing free mini sector, use that.
        while let Some(free_idx) = self.free_mini_sectors.pop() {
            if self.minifat[free_idx as usize] == consts::FREE_SECTOR {
                self.set_minifat(free_idx, value)?;
                self.zero_mini_sector(free_idx)?;
                return Ok(free_idx);
            }
        }
        // Otherwise, we need a new mini sector; if there's not room in the
        // MiniFAT to add it, then first we need to allocate a new MiniFAT
        // sector.
        let minifat_entries_per_sector = self.directory.sector_len() / 4;
        if self.minifat_start_sector == consts::END_OF_CHAIN {
            debug_assert!(self.minifat.is_empty());
            self.minifat_start_sector =
                self.directory.begin_chain(SectorInit::Fat)?;
            let mut header = self.directory.seek_within_header(60)?;
            header.write_le_u32(self.minifat_start_sector)?;
            header.write_le_u32(1)?;
        } else {
            // The MiniFAT chain is never shrunk, so it may already have room
            // for another entry even if the MiniFAT itself has been truncated.
            let start = self.minifat_start_sector;
            let minifat_capacity = self
                .directory
                .open_chain(start, SectorInit::Fat)?
                .num_sectors()
                * minifat_entries_per_sector;
            if self.minifat.len() >= minifat_capacity {
                self.directory.extend_chain(start, SectorInit::Fat)?;
                let num_minifat_sectors =
                    self.directory
                        .open_chain(start, SectorInit::Fat)?
                        .num_sectors() as u32;
                let mut header = self.directory.seek_within_header(64)?;
                header.write_le_u32(num_minifat_sectors)?;
            }
        }
        // Add a new mini sector to the end of the mini stream and return it.
        let new_mini_sector = self.minifat.len() as u32;
        self.set_minifat(new_mini_sector, value)?;
        self.append_mini_sector()?;
        self.zero_mini_sector(new_mini_sector)?;
        Ok(new_mini_sector)
    }

    /// Fills the specified mini sector with zeros, so that no data of a
    /// previous owner of that part of the mini stream shows through.
    fn zero_mini_sector(&mut self, mini_sector: u32) -> io::Result<()> {
        let mut sector = self.seek_within_mini_sector(mini_sector, 0)?;
        sector.write_all(&[0u8; consts::MINI_SECTOR_LEN])
    }

    /// Adds a new mini sector to the end of the mini stream.
    fn append_mini_sector(&mut self) -> io::Result<()> {
        let mini_stream_start_sector =
            self.directory.root_dir_entry().start_sector;
        let mini_stream_len = self.directory.root_dir_entry().stream_len;
        debug_assert_eq!(mini_stream_len % consts::MINI_SECTOR_LEN as u64, 0);
        let new_mini_stream_len = match mini_stream_len
            .checked_add(consts::MINI_SECTOR_LEN as u64)
        {
            Some(len) => len,
            None => malformed!(
                "mini stream length {} is too large",
                mini_stream_len
            ),
        };

        // If the mini stream doesn't have room for new mini sector, add
        // another regular sector to its chain.
        let new_start_sector =
            if mini_stream_start_sector == consts::END_OF_CHAIN {
                if mini_stream_len != 0 {
                    malformed!(
                        "mini stream has length {} but no start sector",
                        mini_stream_len
                    );
                }
                self.directory.begin_chain(SectorInit::Zero)?
            } else {
                // The mini stream's chain is never shrunk, so it may already
                // have room for another mini sector.
                let mini_stream_capacity = self
                    .directory
                    .open_chain(mini_stream_start_sector, SectorInit::Zero)?
                    .len();
                if new_mini_stream_len > mini_stream_capacity {
                    self.directory.extend_chain(
                        mini_stream_start_sector,
                        SectorInit::Zero,
                    )?;
                }
                mini_stream_start_sector
            };

        // Update length of mini stream in root directory entry.
        self.directory.with_root_dir_entry_mut(|dir_entry| {
            dir_entry.start_sector = new_start_sector;
            dir_entry.stream_len = new_mini_stream_len;
        })
    }

    /// Deallocates the specified mini sector.
    fn free_mini_sector(&mut self, mini_sector: u32) -> io::Result<()> {
        if self.minifat[mini_sector as usize] == consts::FREE_SECTOR {
            invalid_input!("sector {} freed twice", mini_sector);
        }
        self.set_minifat(mini_sector, consts::FREE_SECTOR)?;
        self.free_mini_sectors.push(mini_sector);
        let mut mini_stream_len = self.directory.root_dir_entry().stream_len;
        debug_assert_eq!(mini_stream_len % consts::MINI_SECTOR_LEN as u64, 0);
        while self.minifat.last() == Some(&consts::FREE_SECTOR) {
            mini_stream_len -= consts::MINI_SECTOR_LEN as u64;
            self.minifat.pop();
            // TODO: Truncate MiniFAT if last MiniFAT sector is now all free.
        }
        let minifat_len = self.minifat.len();
        self.free_mini_sectors.retain(|&idx| (idx as usize) < minifat_len);

        if mini_stream_len != self.directory.root_dir_entry().stream_len {
            self.directory.with_root_dir_entry_mut(|dir_entry| {
                dir_entry.stream_len = mini_stream_len;
            })?;
        }
        Ok(())
    }

    /// Given the start sector of a mini chain, deallocates the entire chain.
    pub fn free_mini_chain(
        &mut self,
        start_mini_sector: u32,
    ) -> io::Result<()> {
        let mut mini_sector = start_mini_sector;
        while mini_sector != consts::END_OF_CHAIN {
            let next = self.next_mini_sector(mini_sector)?;
            self.free_mini_sector(mini_sector)?;
            mini_sector = next;
        }
        Ok(())
    }

    /// Sets the given mini sector to point to `END_OF_CHAIN`, and deallocates
    /// all subsequent mini sectors in the chain.
    pub fn free_mini_chain_after(
        &mut self,
        mini_sector: u32,
    ) -> io::Result<()> {
        let next = self.next_mini_sector(mini_sector)?;
        self.set_minifat(mini_sector, consts::END_OF_CHAIN)?;
        self.free_mini_chain(next)?;
        Ok(())
    }

    /// Sets `self.minifat[index] = value`, and also writes that change to the
    /// underlying file.  The `index` must be <= `self.minifat.len()`.
    fn set_minifat(&mut self, index: u32, value: u32) -> io::Result<()> {
        debug_assert!(index as usize <= self.minifat.len());
        let mut chain = self
            .directory
            .open_chain(self.minifat_start_sector, SectorInit::Fat)?;
        let offset = (index as u64) * size_of::<u32>() as u64;
        if chain.len() < offset + size_of::<u32>() as u64 {
            malformed!(
                "MiniFAT chain is too short to hold entry {} ({} bytes)",
                index,
                chain.len()
            );
        }
        chain.seek(SeekFrom::Start(offset))?;
        chain.write_le_u32(value)?;
        if (index as usize) == self.minifat.len() {
            self.minifat.push(value);
        } else {
            self.minifat[index as usize] = value;
        }
        Ok(())
    }

    /// Flushes all changes to the underlying file.
    pub fn flush(&mut self) -> io::Result<()> {
        self.directory.flush()
    }
}

//===========================================================================//

#[cfg(test)]
mod tests {
    use std::io::Cursor;

    use crate::internal::{
        consts, Allocator, DirEntry, Directory, ObjType, Sectors, Timestamp,
        Validation, Version,
    };

    use super::MiniAllocator;

    fn make_minialloc(minifat: Vec<u32>) -> MiniAllocator<Cursor<Vec<u8>>> {
        let root_stream_len = (consts::MINI_SECTOR_LEN * minifat.len()) as u64;
        make_minialloc_with_root_stream_len(minifat, root_stream_len)
    }

    fn make_minialloc_with_root_stream_len(
        minifat: Vec<u32>,
        root_stream_len: u64,
    ) -> MiniAllocator<Cursor<Vec<u8>>> {
        let validation = Validation::Strict;
        let version = Version::V3;
        let num_sectors = 4; // FAT, Directory, MiniFAT, and mini chain
        let data_len = (1 + num_sectors) * version.sector_len();
        let cursor = Cursor::new(vec![0; data_len]);
        let sectors = Sectors::new(version, data_len as u64, cursor);
        let mut fat = vec![consts::END_OF_CHAIN; num_sectors];
        fat[0] = consts::FAT_SECTOR;
        let allocator =
            Allocator::new(sectors, vec![], vec![0], fat, validation).unwrap();
        let mut root_entry = DirEntry::empty_root_entry();
        root_entry.child = 1;
        root_entry.start_sector = 3;
        root_entry.stream_len = root_stream_len;
        let mut stream_entry =
            DirEntry::new("foo", ObjType::Stream, Timestamp::zero());
        stream_entry.start_sector = 0;
        stream_entry.stream_len = root_entry.stream_len;
        let entries = vec![root_entry, stream_entry];
        let directory =
            Directory::new(allocator, entries, 1, validation).unwrap();
        MiniAllocator::new(directory, minifat, 2, validation).unwrap()
    }

    #[test]
    #[should_panic(
        expected = "Malformed MiniFAT (MiniFAT has 3 entries, but root stream \
                    has only 2 mini sectors)"
    )]
    fn root_stream_too_short() {
        let minifat = vec![1, 2, consts::END_OF_CHAIN];
        let root_stream_len = (2 * consts::MINI_SECTOR_LEN) as u64;
        make_minialloc_with_root_stream_len(minifat, root_stream_len);
    }

    #[test]
    #[should_panic(
        expected = "Malformed MiniFAT (MiniFAT has 2 entries, but mini sector \
                    1 points to 3)"
    )]
    fn pointee_out_of_range() {
        let minifat = vec![1, 3];
        make_minialloc(minifat);
    }

    #[test]
    #[should_panic(
        expected = "Malformed MiniFAT (mini sector 1 pointed to twice)"
    )]
    fn double_pointee() {
        let minifat = vec![1, 2, 1];
        make_minialloc(minifat);
    }
}

//===========================================================================//
