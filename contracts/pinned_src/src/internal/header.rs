use std::fmt;
use std::io::{self, Read, Write};

use crate::internal::{consts, Validation, Version};
use crate::{ReadLeNumber, WriteLeNumber};

//===========================================================================//

#[derive(Clone, PartialEq, Eq)]
pub struct Header {
    pub version: Version,
    pub num_dir_sectors: u32,
    pub num_fat_sectors: u32,
    pub first_dir_sector: u32,
    pub first_minifat_sector: u32,
    pub num_minifat_sectors: u32,
    pub first_difat_sector: u32,
    pub num_difat_sectors: u32,
    pub initial_difat_entries: [u32; consts::NUM_DIFAT_ENTRIES_IN_HEADER],
}

impl fmt::Debug for Header {
    fn fmt(&self, f: &mut fmt::Formatter<'_>) -> fmt::Result {
        use consts::Sector;
        let mut stripped_of_free = &self.initial_difat_entries[..];
        while let Some(stripped) =
            stripped_of_free.strip_suffix(&[consts::FREE_SECTOR])
        {
            stripped_of_free = stripped;
        }
        f.debug_struct("Header")
            .field("version", &self.version)
            .field("num_dir_sectors", &self.num_dir_sectors)
            .field("num_fat_sectors", &self.num_fat_sectors)
            .field("first_dir_sector", &Sector::new(self.first_dir_sector))
            .field(
                "first_minifat_sector",
                &Sector::new(self.first_minifat_sector),
            )
            .field("num_minifat_sectors", &self.num_minifat_sectors)
            .field("first_difat_sector", &Sector::new(self.first_difat_sector))
            .field("num_difat_sectors", &self.num_difat_sectors)
            .field(
                "initial_difat_entries",
                &consts::prettify(stripped_of_free),
            )
            .finish()
    }
}

impl Header {
    pub fn read_from<R: Read>(
        reader: &mut R,
        validation: Validation,
    ) -> io::Result<Header> {
        let mut magic = [0u8; 8];
        reader.read_exact(&mut magic)?;
        if magic != consts::MAGIC_NUMBER {
            invalid_data!(
                "Invalid CFB file (wrong magic number): {:x?}",
                magic
            );
        }
        reader.read_exact(&mut [0u8; 16])?; // reserved field

        // Read the version number, but don't try to interpret it until after
        // we've checked the byte order mark.
        let _minor_version = reader.read_le_u16()?;
        let version_number = reader.read_le_u16()?;

        let byte_order_mark = reader.read_le_u16()?;
        if byte_order_mark != consts::BYTE_ORDER_MARK {
            invalid_data!(
                "Invalid CFB byte order mark (expected 0x{:04X}, found \
                 0x{:04X})",
                consts::BYTE_ORDER_MARK,
                byte_order_mark
            );
        }

        let version = match Version::from_number(version_number) {
            Some(version) => version,
            None => {
                invalid_data!(
                    "CFB version {} is not supported",
                    version_number
                );
            }
        };

        let sector_shift = reader.read_le_u16()?;
        if sector_shift != version.sector_shift() {
            invalid_data!(
                "Incorrect sector shift for CFB version {} (expected {}, \
                 found {})",
                version.number(),
                version.sector_shift(),
                sector_shift
            );
        }

        let mini_sector_shift = reader.read_le_u16()?;
        if mini_sector_shift != consts::MINI_SECTOR_SHIFT {
            invalid_data!(
                "Incorrect mini sector shift (expected {}, found {})",
                consts::MINI_SECTOR_SHIFT,
                mini_sector_shift
            );
        }

        // TODO: require reserved field to be all zeros under strict validation
        reader.read_exact(&mut [0u8; 6])?; // reserved field

        // According to section 2.2 of the MS-CFB spec, "If Major Version is 3,
        // the Number of Directory Sectors MUST be zero."  However, under
        // Permissive validation, we don't enforce this, but instead just treat
        // the field as though it were zero for V3 files.
        let mut num_dir_sectors = reader.read_le_u32()?;
        if version == Version::V3 && num_dir_sectors != 0 {
            if validation.is_strict() {
                invalid_data!(
                    "Invalid number of directory sectors field (must be zero \
                     for CFB version 3, found {})",
                    num_dir_sectors
                );
            }
            num_dir_sectors = 0;
        }

        let num_fat_sectors = reader.read_le_u32()?;
        let first_dir_sector = reader.read_le_u32()?;
        let _transaction_signature = reader.read_le_u32()?;

        let mini_stream_cutoff = reader.read_le_u32()?;
        if mini_stream_cutoff != consts::MINI_STREAM_CUTOFF {
            invalid_data!(
                "Incorrect mini stream cutoff (expected {}, found {})",
                consts::MINI_STREAM_CUTOFF,
                mini_stream_cutoff
            );
        }

        let first_minifat_sector = reader.read_le_u32()?;
        let num_minifat_sectors = reader.read_le_u32()?;
        let mut first_difat_sector = reader.read_le_u32()?;
        let num_difat_sectors = reader.read_le_u32()?;

        // Some CFB implementations use FREE_SECTOR to indicate END_OF_CHAIN.
        if first_difat_sector == consts::FREE_SECTOR {
            first_difat_sector = consts::END_OF_CHAIN;
        }

        let mut initial_difat_entries =
            [consts::FREE_SECTOR; consts::NUM_DIFAT_ENTRIES_IN_HEADER];
        for entry in initial_difat_entries.iter_mut() {
            let next = reader.read_le_u32()?;
            if next == consts::FREE_SECTOR {
                break;
            } else if next > consts::MAX_REGULAR_SECTOR {
                invalid_data!(
                    "Initial DIFAT array refers to invalid sector index \
                     0x{:08X}",
                    next
                );
            }
            *entry = next;
        }

        Ok(Header {
            version,
            num_dir_sectors,
            num_fat_sectors,
            first_dir_sector,
            first_minifat_sector,
            num_minifat_sectors,
            first_difat_sector,
            num_difat_sectors,
            initial_difat_entries,
        })
    }

    pub fn write_to<W: Write>(&self, writer: &mut W) -> io::Result<()> {
        writer.write_all(&consts::MAGIC_NUMBER)?;
        writer.write_all(&[0; 16])?; // reserved field
        writer.write_le_u16(consts::MINOR_VERSION)?;
        writer.write_le_u16(self.version.number())?;
        writer.write_le_u16(consts::BYTE_ORDER_MARK)?;
        writer.write_le_u16(self.version.sector_shift())?;
        writer.write_le_u16(consts::MINI_SECTOR_SHIFT)?;
        writer.write_all(&[0; 6])?; // reserved field
        writer.write_le_u32(self.num_dir_sectors)?;
        writer.write_le_u32(self.num_fat_sectors)?;
        writer.write_le_u32(self.first_dir_sector)?;
        writer.write_le_u32(0)?; // transaction signature (unused)
        writer.write_le_u32(consts::MINI_STREAM_CUTOFF)?;
        writer.write_le_u32(self.first_minifat_sector)?;
        writer.write_le_u32(self.num_minifat_sectors)?;
        writer.write_le_u32(self.first_difat_sector)?;
        writer.write_le_u32(self.num_difat_sectors)?;
        for &entry in self.initial_difat_entries.iter() {
            writer.write_le_u32(entry)?;
        }
        Ok(())
    }
}

//===========================================================================//

#[cfg(test)]
mod tests {
    use crate::internal::{consts, Validation, Version};

    use super::Header;

    fn make_valid_header() -> Header {
        let mut header = Header {
            version: Version::V3,
            num_dir_sectors: 0,
            num_fat_sectors: 1,
            first_dir_sector: 1,
            first_minifat_sector: 2,
            num_minifat_sectors: 3,
            first_difat_sector: consts::END_OF_CHAIN,
            num_difat_sectors: 0,
            initial_difat_entries: [consts::FREE_SECTOR;
                consts::NUM_DIFAT_ENTRIES_IN_HEADER],
        };
        header.initial_difat_entries[0] = 0;
        header
    }

    fn make_valid_header_data() -> Vec<u8> {
        let header = make_valid_header();
        let mut data = Vec::<u8>::new();
        header.write_to(&mut data).unwrap();
        data
    }

    #[test]
    fn round_trip() {
        let header1 = make_valid_header();
        let mut data = Vec::<u8>::new();
        header1.write_to(&mut data).unwrap();
        let header2 =
            Header::read_from(&mut data.as_slice(), Validation::Strict)
                .unwrap();
        assert_eq!(header1.version, header2.version);
        assert_eq!(header1.num_dir_sectors, header2.num_dir_sectors);
        assert_eq!(header1.num_fat_sectors, header2.num_fat_sectors);
        assert_eq!(header1.first_dir_sector, header2.first_dir_sector);
        assert_eq!(header1.first_minifat_sector, header2.first_minifat_sector);
        assert_eq!(header1.num_minifat_sectors, header2.num_minifat_sectors);
        assert_eq!(header1.first_difat_sector, header2.first_difat_sector);
        assert_eq!(header1.num_difat_sectors, header2.num_difat_sectors);
        assert_eq!(
            header1.initial_difat_entries,
            header2.initial_difat_entries
        );
    }

    #[test]
    #[should_panic(
        expected = "Invalid CFB file (wrong magic number): [d0, cf, ff, e0, a1, b1, 1a, e1]"
    )]
    fn invalid_magic_number() {
        let mut data = make_valid_header_data();
        data[2] = 255;
        Header::read_from(&mut data.as_slice(), Validation::Strict).unwrap();
    }

    #[test]
    #[should_panic(expected = "CFB version 42 is not supported")]
    fn invalid_version() {
        let mut data = make_valid_header_data();
        data[26] = 42;
        Header::read_from(&mut data.as_slice(), Validation::Strict).unwrap();
    }

    #[test]
    #[should_panic(
        expected = "Invalid CFB byte order mark (expected 0xFFFE, found \
                    0x07FE)"
    )]
    fn invalid_byte_order_mark() {
        let mut data = make_valid_header_data();
        data[29] = 7;
        Header::read_from(&mut data.as_slice(), Validation::Strict).unwrap();
    }

    #[test]
    #[should_panic(
        expected = "Incorrect sector shift for CFB version 3 (expected 9, \
                    found 12)"
    )]
    fn invalid_sector_shift() {
        let mut data = make_valid_header_data();
        data[30] = 12;
        Header::read_from(&mut data.as_slice(), Validation::Strict).unwrap();
    }

    #[test]
    #[should_panic(
        expected = "Incorrect mini sector shift (expected 6, found 7)"
    )]
    fn invalid_mini_sector_shift() {
        let mut data = make_valid_header_data();
        data[32] = 7;
        Header::read_from(&mut data.as_slice(), Validation::Strict).unwrap();
    }

    #[test]
    #[should_panic(
        expected = "Invalid number of directory sectors field (must be zero \
                    for CFB version 3, found 37)"
    )]
    fn v3_non_zero_dir_sectors_strict() {
        let mut data = make_valid_header_data();
        data[40] = 37;
        Header::read_from(&mut data.as_slice(), Validation::Strict).unwrap();
    }

    #[test]
    fn v3_non_zero_dir_sectors_permissive() {
        let mut data = make_valid_header_data();
        data[40] = 37;
        let header =
            Header::read_from(&mut data.as_slice(), Validation::Permissive)
                .unwrap();
        assert_eq!(header.num_dir_sectors, 0);
        assert_eq!(format!("{header:?}"), "Header { version: V3, num_dir_sectors: 0, num_fat_sectors: 1, first_dir_sector: 1, first_minifat_sector: 2, num_minifat_sectors: 3, first_difat_sector: EOC, num_difat_sectors: 0, initial_difat_entries: [0] }");
    }

    #[test]
    #[should_panic(
        expected = "Incorrect mini stream cutoff (expected 4096, found 2048)"
    )]
    fn invalid_mini_stream_cutoff() {
        let mut data = make_valid_header_data();
        data[57] = 8;
        Header::read_from(&mut data.as_slice(), Validation::Strict).unwrap();
    }

    #[test]
    #[should_panic(
        expected = "Initial DIFAT array refers to invalid sector index \
                    0xFFFFFFFB"
    )]
    fn invalid_difat_array() {
        let mut data = make_valid_header_data();
        data[80] = 0xFB;
        Header::read_from(&mut data.as_slice(), Validation::Strict).unwrap();
    }
}

//===========================================================================//
