use crate::internal::consts;

//===========================================================================//

/// The type of a directory entry.
#[derive(Clone, Copy, Debug, Eq, PartialEq)]
pub enum ObjType {
    Unallocated,
    Storage,
    Stream,
    Root,
}

impl ObjType {
    pub fn as_byte(&self) -> u8 {
        match self {
            ObjType::Unallocated => consts::OBJ_TYPE_UNALLOCATED,
            ObjType::Storage => consts::OBJ_TYPE_STORAGE,
            ObjType::Stream => consts::OBJ_TYPE_STREAM,
            ObjType::Root => consts::OBJ_TYPE_ROOT,
        }
    }

    pub fn from_byte(byte: u8) -> Option<ObjType> {
        if byte == consts::OBJ_TYPE_UNALLOCATED {
            Some(ObjType::Unallocated)
        } else if byte == consts::OBJ_TYPE_STORAGE {
            Some(ObjType::Storage)
        } else if byte == consts::OBJ_TYPE_STREAM {
            Some(ObjType::Stream)
        } else if byte == consts::OBJ_TYPE_ROOT {
            Some(ObjType::Root)
        } else {
            None
        }
    }
}

//===========================================================================//

#[cfg(test)]
mod tests {
    use super::ObjType;

    #[test]
    fn round_trip() {
        for &obj_type in &[
            ObjType::Unallocated,
            ObjType::Storage,
            ObjType::Stream,
            ObjType::Root,
        ] {
            assert_eq!(ObjType::from_byte(obj_type.as_byte()), Some(obj_type));
        }
    }
}

//===========================================================================//
