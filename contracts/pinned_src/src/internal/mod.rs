#[macro_use]
mod macros;

mod alloc;
mod chain;
mod color;
pub mod consts;
mod directory;
mod direntry;
mod entry;
mod header;
mod minialloc;
mod minichain;
mod objtype;
pub mod path;
mod sector;
mod stream;
mod stream_buffer;
mod timestamp;
mod validate;
mod version;

pub use self::alloc::Allocator;
pub use self::chain::Chain;
pub use self::color::Color;
pub use self::directory::Directory;
pub use self::direntry::DirEntry;
pub use self::entry::{Entries, EntriesOrder, Entry};
pub use self::header::Header;
pub use self::minialloc::MiniAllocator;
pub use self::minichain::MiniChain;
pub use self::objtype::ObjType;
pub use self::sector::{Sector, SectorInit, Sectors};
pub use self::stream::Stream;
pub(crate) use self::stream_buffer::DEFAULT_STREAM_MAX_BUFFER_SIZE;
pub use self::timestamp::Timestamp;
pub use self::validate::Validation;
pub use self::version::Version;
