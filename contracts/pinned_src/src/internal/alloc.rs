use crate::internal::{
    consts, Chain, Sector, SectorInit, Sectors, Validation, Version,
};
use crate::WriteLeNumber;
use fnv::FnvHashSet;
use std::io::{self, Seek, Write};
use std::mem::size_of;

//===========================================================================//

macro_rules! malformed {
    ($e:expr) => { invalid_data!("Malformed FAT ({})", $e) };
    ($fmt:expr, $($arg:tt)+) => {
        invalid_data!("Malformed FAT ({})", format!($fmt, $($arg)+))
    };
}

//===========================================================================//

/// A wrapper around the sectors of a compound file, providing sector
/// allocation via the FAT and DIFAT.
pub struct Allocator<F> {
    sectors: Sectors<F>,
    difat_sector_ids: Vec<u32>,
    difat: Vec<u32>,
    fat: Vec<u32>,
    free_sectors: Vec<u32>,
}

impl<F> Allocator<F> {
    pub fn new(
        sectors: Sectors<F>,
        difat_sector_ids: Vec<u32>,
        difat: Vec<u32>,
        fat: Vec<u32>,
        validation: Validation,
    ) -> io::Result<Allocator<F>> {
        let mut alloc = Allocator {
            sectors,
            difat_sector_ids,
            difat,
            fat,
            free_sectors: Vec::new(),
        };
        alloc.validate(validation)?;
        Ok(alloc)
    }

    pub fn version(&self) -> Version {
        self.sectors.version()
    }

    pub fn inner(&self) -> &F {
        self.sectors.inner()
    }

    pub fn sector_len(&self) -> usize {
        self.sectors.sector_len()
    }

    pub fn next(&self, sector_id: u32) -> io::Result<u32> {
        let index = sector_id as usize;
        if index >= self.fat.len() {
            invalid_data!(
                "Found reference to sector {}, but FAT has only {} entries",
                index,
                self.fat.len()
            );
        }
        let next_id = self.fat[index];
        if next_id != consts::END_OF_CHAIN
            && (next_id > consts::MAX_REGULAR_SECTOR
                || next_id as usize >= self.fat.len())
        {
            invalid_data!("next_id ({}) is invalid", next_id);
        }
        Ok(next_id)
    }

    pub fn into_inner(self) -> F {
        self.sectors.into_inner()
    }

    pub fn open_chain(
        &mut self,
        start_sector_id: u32,
        init: SectorInit,
    ) -> io::Result<Chain<'_, F>> {
        Chain::new(self, start_sector_id, init)
    }

    fn validate(&mut self, validation: Validation) -> io::Result<()> {
        if self.fat.len() > self.sectors.num_sectors() as usize {
            malformed!(
                "FAT has {} entries, but file has only {} sectors",
                self.fat.len(),
                self.sectors.num_sectors()
            );
        }
        for &difat_sector in self.difat_sector_ids.iter() {
            let difat_sector_index = difat_sector as usize;
            let Some(sector) = self.fat.get_mut(difat_sector_index) else {
                malformed!(
                    "FAT has {} entries, but DIFAT lists {} as a DIFAT sector",
                    self.fat.len(),
                    difat_sector
                );
            };
            if *sector != consts::DIFAT_SECTOR && validation.is_strict() {
                malformed!(
                    "DIFAT sector {} is not marked as such in the FAT",
                    difat_sector
                );
            }
            *sector = consts::DIFAT_SECTOR;
        }
        for &fat_sector in self.difat.iter() {
            let fat_sector_index = fat_sector as usize;
            let Some(sector) = self.fat.get_mut(fat_sector_index) else {
                malformed!(
                    "FAT has {} entries, but DIFAT lists {} as a FAT sector",
                    self.fat.len(),
                    fat_sector
                );
            };
            if *sector != consts::FAT_SECTOR && validation.is_strict() {
                malformed!(
                    "FAT sector {} is not marked as such in the FAT",
                    fat_sector
                );
            }
            *sector = consts::FAT_SECTOR;
        }
        let mut pointees = FnvHashSet::default();
        for (from_sector, &to_sector) in self.fat.iter().enumerate() {
            if to_sector <= consts::MAX_REGULAR_SECTOR {
                if to_sector as usize >= self.fat.len() {
                    malformed!(
                        "FAT has {} entries, but sector {} points to {}",
                        self.fat.len(),
                        from_sector,
                        to_sector
                    );
                }
                if pointees.contains(&to_sector) {
                    malformed!("sector {} pointed to twice", to_sector);
                }
                pointees.insert(to_sector);
            } else if to_sector == consts::INVALID_SECTOR {
                malformed!("0x{:08X} is not a valid FAT entry", to_sector);
            }
        }

        self.free_sectors.clear();
        for (idx, &entry) in self.fat.iter().enumerate() {
            if entry == consts::FREE_SECTOR {
                self.free_sectors.push(idx as u32);
            }
        }

        Ok(())
    }
}

impl<F: Seek> Allocator<F> {
    pub fn seek_within_header(
        &mut self,
        offset_within_header: u64,
    ) -> io::Result<Sector<'_, F>> {
        self.sectors.seek_within_header(offset_within_header)
    }

    pub fn seek_to_sector(
        &mut self,
        sector_id: u32,
    ) -> io::Result<Sector<'_, F>> {
        self.sectors.seek_to_sector(sector_id)
    }

    pub fn seek_within_sector(
        &mut self,
        sector_id: u32,
        offset_within_sector: u64,
    ) -> io::Result<Sector<'_, F>> {
        self.sectors.seek_within_sector(sector_id, offset_within_sector)
    }

    pub fn seek_within_subsector(
        &mut self,
        sector_id: u32,
        subsector_index_within_sector: u32,
        subsector_len: usize,
        offset_within_subsector: u64,
    ) -> io::Result<Sector<'_, F>> {
        let subsector_start =
            subsector_index_within_sector as usize * subsector_len;
        let offset_within_sector =
            subsector_start as u64 + offset_within_subsector;
        let sector = self
            .sectors
            .seek_within_sector(sector_id, offset_within_sector)?;
        Ok(sector.subsector(subsector_start, subsector_len))
    }
}

impl<F: Write + Seek> Allocator<F> {
    /// Allocates a new chain with one sector, and returns the starting sector
    /// number.
    pub fn begin_chain(&mut self, init: SectorInit) -> io::Result<u32> {
        self.allocate_sector(init)
    }

    /// Given the starting sector (or any internal sector) of a chain, extends
    /// the end of that chain by one sector and returns the new sector number,
    /// updating the FAT as necessary.
    pub fn extend_chain(
        &mut self,
        start_sector_id: u32,
        init: SectorInit,
    ) -> io::Result<u32> {
        debug_assert_ne!(start_sector_id, consts::END_OF_CHAIN);
        let mut last_sector_id = start_sector_id;
        let mut num_steps = 0;
        loop {
            let next = self.next(last_sector_id)?;
            if next == consts::END_OF_CHAIN {
                break;
            }
            last_sector_id = next;
            num_steps += 1;
            if num_steps > self.fat.len() {
                malformed!(
                    "chain starting at sector {} has a loop",
                    start_sector_id
                );
            }
        }
        let new_sector_id = self.allocate_sector(init)?;
        self.set_fat(last_sector_id, new_sector_id)?;
        Ok(new_sector_id)
    }

    /// Allocates a new entry in the FAT, sets its value to `END_OF_CHAIN`, and
    /// returns the new sector number.
    fn allocate_sector(&mut self, init: SectorInit) -> io::Result<u32> {
        // If there's an existing free sector, use that.
        if let Some(free_sector_idx) = self.free_sectors.pop() {
            let sector_id = free_sector_idx;
            self.set_fat(sector_id, consts::END_OF_CHAIN)?;
            self.sectors.init_sector(sector_id, init)?;
            return Ok(sector_id);
        }
        // Otherwise, we need a new sector; if there's no room in the FAT to
        // add it, then first we need to allocate a new FAT sector.
        let fat_entries_per_sector =
            self.sectors.sector_len() / size_of::<u32>();
        if self.fat.len() % fat_entries_per_sector == 0 {
            self.append_fat_sector()?;
        }
        // Add a new sector to the end of the file and return it.
        let new_sector = self.fat.len() as u32;
        self.set_fat(new_sector, consts::END_OF_CHAIN)?;
        self.sectors.init_sector(new_sector, init)?;
        Ok(new_sector)
    }

    /// Adds a new sector to the FAT chain at the end of the file, and updates
    /// the FAT and DIFAT accordingly.
    fn append_fat_sector(&mut self) -> io::Result<()> {
        // Add a new FAT sector to the end of the file.
        let new_fat_sector_id = self.fat.len() as u32;
        self.sectors.init_sector(new_fat_sector_id, SectorInit::Fat)?;

        // Record this new FAT sector in the DIFAT and in the FAT itself.
        let difat_index = self.difat.len();
        self.difat.push(new_fat_sector_id);
        self.set_fat(new_fat_sector_id, consts::FAT_SECTOR)?;
        debug_assert_eq!(self.fat.len(), new_fat_sector_id as usize + 1);

        // Write DIFAT changes to file.
        if difat_index < consts::NUM_DIFAT_ENTRIES_IN_HEADER {
            // This DIFAT entry goes in the file header.
            let offset = 76 + 4 * difat_index as u64;
            let mut header = self.sectors.seek_within_header(offset)?;
            header.write_le_u32(new_fat_sector_id)?;
        } else {
            // This DIFAT entry goes in a DIFAT sector.
            let difat_entries_per_sector = (self.sector_len() - 4) / 4;
            let difat_sector_index = (difat_index
                - consts::NUM_DIFAT_ENTRIES_IN_HEADER)
                / difat_entries_per_sector;
            if difat_sector_index >= self.difat_sector_ids.len() {
                // Add a new DIFAT sector to the end of the file.
                let new_difat_sector_id = self.fat.len() as u32;
                self.sectors
                    .init_sector(new_difat_sector_id, SectorInit::Difat)?;
                // Record this new DIFAT sector in the FAT.
                self.set_fat(new_difat_sector_id, consts::DIFAT_SECTOR)?;
                // Add this sector to the end of the DIFAT chain.
                if let Some(&last_sector_id) = self.difat_sector_ids.last() {
                    let offset = self.sector_len() as u64 - 4;
                    let mut sector = self
                        .sectors
                        .seek_within_sector(last_sector_id, offset)?;
                    sector.write_le_u32(new_difat_sector_id)?;
                }
                self.difat_sector_ids.push(new_difat_sector_id);
                // Update DIFAT chain fields in header.
                let mut header = self.sectors.seek_within_header(68)?;
                header.write_le_u32(self.difat_sector_ids[0])?;
                header.write_le_u32(self.difat_sector_ids.len() as u32)?;
            }
            // Write the new entry into the DIFAT sector.
            let difat_sector_id = self.difat_sector_ids[difat_sector_index];
            let index_within_difat_sector = difat_index
                - consts::NUM_DIFAT_ENTRIES_IN_HEADER
                - difat_sector_index * difat_entries_per_sector;
            let mut sector = self.sectors.seek_within_sector(
                difat_sector_id,
                4 * index_within_difat_sector as u64,
            )?;
            sector.write_le_u32(new_fat_sector_id)?;
        }

        // Update length of FAT chain in header.
        let mut header = self.sectors.seek_within_header(44)?;
        header.write_le_u32(self.difat.len() as u32)?;
        Ok(())
    }

    /// Sets the given sector to point to `END_OF_CHAIN`, and deallocates all
    /// subsequent sectors in the chain.
    pub fn free_chain_after(&mut self, sector_id: u32) -> io::Result<()> {
        let next = self.next(sector_id)?;
        self.set_fat(sector_id, consts::END_OF_CHAIN)?;
        self.free_chain(next)?;
        Ok(())
    }

    /// Given the start sector of a chain, deallocates the entire chain.
    pub fn free_chain(&mut self, start_sector_id: u32) -> io::Result<()> {
        let mut sector_id = start_sector_id;
        while sector_id != consts::END_OF_CHAIN {
            let next = self.next(sector_id)?;
            self.free_sector(sector_id)?;
            sector_id = next;
        }
        Ok(())
    }

    /// Deallocates the specified sector.
    fn free_sector(&mut self, sector_id: u32) -> io::Result<()> {
        if self.fat.get(sector_id as usize) == Some(&consts::FREE_SECTOR) {
            invalid_input!("sector {} freed twice", sector_id);
        }
        self.set_fat(sector_id, consts::FREE_SECTOR)?;
        self.free_sectors.push(sector_id);
        // TODO: Truncate FAT if last FAT sector is now all free.
        Ok(())
    }

    /// Sets `self.fat[index] = value`, and also writes that change to the
    /// underlying file.  The `index` must be <= `self.fat.len()`.
    fn set_fat(&mut self, index: u32, value: u32) -> io::Result<()> {
        let index = index as usize;
        debug_assert!(index <= self.fat.len());
        let fat_entries_per_sector =
            self.sectors.sector_len() / size_of::<u32>();
        if index / fat_entries_per_sector >= self.difat.len() {
            malformed!(
                "FAT entry {} is beyond the {} FAT sectors listed in the DIFAT",
                index,
                self.difat.len()
            );
        }
        let fat_sector_id = self.difat[index / fat_entries_per_sector];
        let offset_within_sector = 4 * (index % fat_entries_per_sector) as u64;
        let mut sector = self
            .sectors
            .seek_within_sector(fat_sector_id, offset_within_sector)?;
        sector.write_le_u32(value)?;
        if index == self.fat.len() {
            self.fat.push(value);
        } else {
            self.fat[index] = value;
        }
        Ok(())
    }

    /// Flushes all changes to the underlying file.
    pub fn flush(&mut self) -> io::Result<()> {
        self.sectors.flush()
    }
}

//===========================================================================//

#[cfg(test)]
mod tests {
    use super::Allocator;
    use crate::internal::{consts, Sectors, Validation, Version};
    use std::io::Cursor;

    fn make_sectors(
        version: Version,
        num_sectors: usize,
    ) -> Sectors<Cursor<Vec<u8>>> {
        let data_len = (num_sectors + 1) * version.sector_len();
        Sectors::new(version, data_len as u64, Cursor::new(vec![0; data_len]))
    }

    fn make_allocator(
        difat: Vec<u32>,
        fat: Vec<u32>,
        validation: Validation,
    ) -> Allocator<Cursor<Vec<u8>>> {
        Allocator::new(
            make_sectors(Version::V3, fat.len()),
            vec![],
            difat,
            fat,
            validation,
        )
        .unwrap()
    }

    #[test]
    #[should_panic(
        expected = "Malformed FAT (FAT has 3 entries, but file has only 2 \
                    sectors)"
    )]
    fn fat_longer_than_file() {
        let difat = vec![0];
        let fat = vec![consts::FAT_SECTOR, 2, consts::END_OF_CHAIN];
        let sectors = make_sectors(Version::V3, 2);
        Allocator::new(sectors, vec![], difat, fat, Validation::Strict)
            .unwrap();
    }

    #[test]
    #[should_panic(
        expected = "Malformed FAT (FAT has 2 entries, but DIFAT lists 3 as \
                    a DIFAT sector)"
    )]
    fn difat_sector_out_of_range() {
        let difat_sectors = vec![3];
        let difat = vec![0];
        let fat = vec![consts::FAT_SECTOR, consts::END_OF_CHAIN];
        let sectors = make_sectors(Version::V3, fat.len());
        Allocator::new(sectors, difat_sectors, difat, fat, Validation::Strict)
            .unwrap();
    }

    #[test]
    #[should_panic(
        expected = "Malformed FAT (DIFAT sector 1 is not marked as such in \
                    the FAT)"
    )]
    fn difat_sector_not_marked_in_fat_strict() {
        let difat_sectors = vec![1];
        let difat = vec![0];
        let fat = vec![consts::FAT_SECTOR, consts::END_OF_CHAIN];
        let sectors = make_sectors(Version::V3, fat.len());
        Allocator::new(sectors, difat_sectors, difat, fat, Validation::Strict)
            .unwrap();
    }

    #[test]
    fn difat_sector_not_marked_in_fat_permissive() {
        let difat_sectors = vec![1];
        let difat = vec![0];
        let fat = vec![consts::FAT_SECTOR, consts::END_OF_CHAIN];
        let sectors = make_sectors(Version::V3, fat.len());
        // Marking the DIFAT sector as END_OF_CHAIN instead of DIFAT_SECTOR is
        // a spec violation, but is tolerated under Permissive validation.
        let mut allocator = Allocator::new(
            sectors,
            difat_sectors,
            difat,
            fat,
            Validation::Permissive,
        )
        .unwrap();
        // We should repair the FAT entry, and the resulting Allocator should
        // now pass Strict validation.
        assert_eq!(allocator.fat[1], consts::DIFAT_SECTOR);
        allocator.validate(Validation::Strict).unwrap();
    }

    #[test]
    #[should_panic(
        expected = "Malformed FAT (FAT has 2 entries, but DIFAT lists 3 as a \
                    FAT sector)"
    )]
    fn fat_sector_out_of_range() {
        let difat = vec![0, 3];
        let fat = vec![consts::FAT_SECTOR, consts::END_OF_CHAIN];
        make_allocator(difat, fat, Validation::Permissive);
    }

    #[test]
    #[should_panic(
        expected = "Malformed FAT (FAT sector 1 is not marked as such in the \
                    FAT)"
    )]
    fn fat_sector_not_marked_in_fat_strict() {
        let difat = vec![0, 1];
        let fat = vec![consts::FAT_SECTOR, consts::END_OF_CHAIN];
        make_allocator(difat, fat, Validation::Strict);
    }

    // Regression test for https://github.com/mdsteele/rust-cfb/issues/30
    #[test]
    fn fat_sector_not_marked_in_fat_permissive() {
        let difat = vec![0, 1];
        let fat = vec![consts::FAT_SECTOR, consts::END_OF_CHAIN];
        // Marking the second FAT sector as END_OF_CHAIN instead of FAT_SECTOR
        // is a spec violation, but is tolerated under Permissive validation.
        let mut allocator = make_allocator(difat, fat, Validation::Permissive);
        // We should repair the FAT entry, and the resulting Allocator should
        // now pass Strict validation.
        assert_eq!(allocator.fat[1], consts::FAT_SECTOR);
        allocator.validate(Validation::Strict).unwrap();
    }

    #[test]
    #[should_panic(
        expected = "Malformed FAT (FAT has 2 entries, but sector 1 points to \
                    2)"
    )]
    fn pointee_out_of_range() {
        let difat = vec![0];
        let fat = vec![consts::FAT_SECTOR, 2];
        make_allocator(difat, fat, Validation::Permissive);
    }

    #[test]
    #[should_panic(expected = "Malformed FAT (sector 3 pointed to twice)")]
    fn double_pointee() {
        let difat = vec![0];
        let fat = vec![consts::FAT_SECTOR, 3, 3, consts::END_OF_CHAIN];
        make_allocator(difat, fat, Validation::Permissive);
    }

    #[test]
    #[should_panic(
        expected = "Malformed FAT (0xFFFFFFFB is not a valid FAT entry)"
    )]
    fn invalid_pointee() {
        let difat = vec![0];
        let fat = vec![consts::FAT_SECTOR, consts::INVALID_SECTOR];
        make_allocator(difat, fat, Validation::Permissive);
    }
}

//===========================================================================//
