use crate::internal::consts;

//===========================================================================//

/// The "color" of a directory entry (which can be used for maintaining a
/// red-black tree).
#[derive(Clone, Copy, Debug, Eq, PartialEq)]
pub enum Color {
    Red,
    Black,
}

impl Color {
    pub fn as_byte(&self) -> u8 {
        match self {
            Color::Red => consts::COLOR_RED,
            Color::Black => consts::COLOR_BLACK,
        }
    }

    pub fn from_byte(byte: u8) -> Option<Color> {
        if byte == consts::COLOR_RED {
            Some(Color::Red)
        } else if byte == consts::COLOR_BLACK {
            Some(Color::Black)
        } else {
            None
        }
    }
}

//===========================================================================//

#[cfg(test)]
mod tests {
    use super::Color;

    #[test]
    fn round_trip() {
        for &color in &[Color::Red, Color::Black] {
            assert_eq!(Color::from_byte(color.as_byte()), Some(color));
        }
    }
}

//===========================================================================//
