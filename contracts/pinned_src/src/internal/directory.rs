use crate::internal::{
    self, consts, Allocator, Chain, Color, DirEntry, ObjType, Sector,
    SectorInit, Timestamp, Validation, Version,
};
use crate::WriteLeNumber;
use fnv::FnvHashSet;
use std::cmp::Ordering;
use std::io::{self, Seek, SeekFrom, Write};

//===========================================================================//

macro_rules! malformed {
    ($e:expr) => { invalid_data!("Malformed directory ({})", $e) };
    ($fmt:expr, $($arg:tt)+) => {
        invalid_data!("Malformed directory ({})", format!($fmt, $($arg)+))
    };
}

//===========================================================================//

/// A wrapper around the sector allocator that additionally provides management
/// of the CFB directory chain.
pub struct Directory<F> {
    allocator: Allocator<F>,
    dir_entries: Vec<DirEntry>,
    dir_start_sector: u32,
}

impl<F> Directory<F> {
    pub fn new(
        allocator: Allocator<F>,
        dir_entries: Vec<DirEntry>,
        dir_start_sector: u32,
        validation: Validation,
    ) -> io::Result<Directory<F>> {
        let directory = Directory { allocator, dir_entries, dir_start_sector };
        directory.validate(validation)?;
        Ok(directory)
    }

    pub fn version(&self) -> Version {
        self.allocator.version()
    }

    pub fn inner(&self) -> &F {
        self.allocator.inner()
    }

    pub fn sector_len(&self) -> usize {
        self.allocator.sector_len()
    }

    pub fn into_inner(self) -> F {
        self.allocator.into_inner()
    }

    pub fn stream_id_for_name_chain(&self, names: &[&str]) -> Option<u32> {
        let mut stream_id = consts::ROOT_STREAM_ID;
        for name in names.iter() {
            stream_id = self.dir_entry(stream_id).child;
            loop {
                if stream_id == consts::NO_STREAM {
                    return None;
                }
                let dir_entry = self.dir_entry(stream_id);
                match internal::path::compare_names(name, &dir_entry.name) {
                    Ordering::Equal => break,
                    Ordering::Less => stream_id = dir_entry.left_sibling,
                    Ordering::Greater => stream_id = dir_entry.right_sibling,
                }
            }
        }
        Some(stream_id)
    }

    pub fn open_chain(
        &mut self,
        start_sector_id: u32,
        init: SectorInit,
    ) -> io::Result<Chain<'_, F>> {
        self.allocator.open_chain(start_sector_id, init)
    }

    pub fn root_dir_entry(&self) -> &DirEntry {
        self.dir_entry(consts::ROOT_STREAM_ID)
    }

    pub fn dir_entry(&self, stream_id: u32) -> &DirEntry {
        &self.dir_entries[stream_id as usize]
    }

    fn dir_entry_mut(&mut self, stream_id: u32) -> &mut DirEntry {
        &mut self.dir_entries[stream_id as usize]
    }

    fn validate(&self, validation: Validation) -> io::Result<()> {
        if self.dir_entries.is_empty() {
            malformed!("root entry is missing");
        }
        let root_entry = self.root_dir_entry();
        if root_entry.stream_len % consts::MINI_SECTOR_LEN as u64 != 0 {
            malformed!(
                "root stream len is {}, but should be multiple of {}",
                root_entry.stream_len,
                consts::MINI_SECTOR_LEN
            );
        }
        let mut visited = FnvHashSet::default();
        let mut stack = vec![(consts::ROOT_STREAM_ID, false)];
        while let Some((stream_id, parent_is_red)) = stack.pop() {
            if visited.contains(&stream_id) {
                malformed!("loop in tree");
            }
            visited.insert(stream_id);
            let dir_entry = self.dir_entry(stream_id);
            if stream_id == consts::ROOT_STREAM_ID {
                if dir_entry.obj_type != ObjType::Root {
                    malformed!(
                        "root entry has object type {:?}",
                        dir_entry.obj_type
                    );
                }
            } else if dir_entry.obj_type != ObjType::Storage
                && dir_entry.obj_type != ObjType::Stream
            {
                malformed!(
                    "non-root entry with object type {:?}",
                    dir_entry.obj_type
                );
            }
            let node_is_red = dir_entry.color == Color::Red;
            // The MS-CFB spec section 2.6.4 says that two consecutive nodes in
            // the red-black tree for siblings within a storage object MUST NOT
            // both be red, but apparently some implementations don't obey this
            // (see https://github.com/mdsteele/rust-cfb/issues/10).  We still
            // want to be able to read these files, so we only consider this an
            // error under Strict validation.
            if parent_is_red && node_is_red && validation.is_strict() {
                malformed!("RB tree has adjacent red nodes");
            }
            let left_sibling = dir_entry.left_sibling;
            if left_sibling != consts::NO_STREAM {
                if left_sibling as usize >= self.dir_entries.len() {
                    malformed!(
                        "left sibling index is {}, but directory entry count \
                         is {}",
                        left_sibling,
                        self.dir_entries.len()
                    );
                }
                let entry = &self.dir_entry(left_sibling);
                if internal::path::compare_names(&entry.name, &dir_entry.name)
                    != Ordering::Less
                {
                    malformed!(
                        "name ordering, {:?} vs {:?}",
                        dir_entry.name,
                        entry.name
                    );
                }
                stack.push((left_sibling, node_is_red));
            }
            let right_sibling = dir_entry.right_sibling;
            if right_sibling != consts::NO_STREAM {
                if right_sibling as usize >= self.dir_entries.len() {
                    malformed!(
                        "right sibling index is {}, but directory entry count \
                         is {}",
                        right_sibling, self.dir_entries.len());
                }
                let entry = &self.dir_entry(right_sibling);
                if internal::path::compare_names(&dir_entry.name, &entry.name)
                    != Ordering::Less
                {
                    malformed!(
                        "name ordering, {:?} vs {:?}",
                        dir_entry.name,
                        entry.name
                    );
                }
                stack.push((right_sibling, node_is_red));
            }
            let child = dir_entry.child;
            if child != consts::NO_STREAM {
                if child as usize >= self.dir_entries.len() {
                    malformed!(
                        "child index is {}, but directory entry count is {}",
                        child,
                        self.dir_entries.len()
                    );
                }
                stack.push((child, false));
            }
        }
        Ok(())
    }
}

impl<F: Seek> Directory<F> {
    pub fn seek_within_header(
        &mut self,
        offset_within_header: u64,
    ) -> io::Result<Sector<'_, F>> {
        self.allocator.seek_within_header(offset_within_header)
    }

    fn seek_to_dir_entry(
        &mut self,
        stream_id: u32,
    ) -> io::Result<Sector<'_, F>> {
        self.seek_within_dir_entry(stream_id, 0)
    }

    fn seek_within_dir_entry(
        &mut self,
        stream_id: u32,
        offset_within_dir_entry: usize,
    ) -> io::Result<Sector<'_, F>> {
        let dir_entries_per_sector =
            self.version().dir_entries_per_sector() as u32;
        let index_within_sector = stream_id % dir_entries_per_sector;
        let mut directory_sector = self.dir_start_sector;
        for _ in 0..(stream_id / dir_entries_per_sector) {
            debug_assert_ne!(directory_sector, consts::END_OF_CHAIN);
            directory_sector = self.allocator.next(directory_sector)?;
        }
        self.allocator.seek_within_subsector(
            directory_sector,
            index_within_sector,
            consts::DIR_ENTRY_LEN,
            offset_within_dir_entry as u64,
        )
    }
}

impl<F: Write + Seek> Directory<F> {
    /// Allocates a new chain with one sector, and returns the starting sector
    /// number.
    pub fn begin_chain(&mut self, init: SectorInit) -> io::Result<u32> {
        self.allocator.begin_chain(init)
    }

    /// Given the starting sector (or any internal sector) of a chain, extends
    /// the end of that chain by one sector and returns the new sector number,
    /// updating the FAT as necessary.
    pub fn extend_chain(
        &mut self,
        start_sector_id: u32,
        init: SectorInit,
    ) -> io::Result<u32> {
        self.allocator.extend_chain(start_sector_id, init)
    }

    /// Given the start sector of a chain, deallocates the entire chain.
    pub fn free_chain(&mut self, start_sector_id: u32) -> io::Result<()> {
        self.allocator.free_chain(start_sector_id)
    }

    /// Inserts a new directory entry into the tree under the specified parent
    /// entry, then returns the new stream ID.
    pub fn insert_dir_entry(
        &mut self,
        parent_id: u32,
        name: &str,
        obj_type: ObjType,
    ) -> io::Result<u32> {
        debug_assert!(
            obj_type == ObjType::Storage || obj_type == ObjType::Stream
        );
        // Create a new directory entry.
        let stream_id = self.allocate_dir_entry()?;
        // 2.6.1 streams must have creation and modified time of 0
        let mut ts = Timestamp::zero();
        if obj_type == ObjType::Storage {
            ts = Timestamp::now();
        }
        *self.dir_entry_mut(stream_id) = DirEntry::new(name, obj_type, ts);

        // Insert the new entry into the tree.
        let mut sibling_id = self.dir_entry(parent_id).child;
        let mut prev_sibling_id = parent_id;
        let mut ordering = Ordering::Equal;
        while sibling_id != consts::NO_STREAM {
            let sibling = self.dir_entry(sibling_id);
            prev_sibling_id = sibling_id;
            ordering = internal::path::compare_names(name, &sibling.name);
            sibling_id = match ordering {
                Ordering::Less => sibling.left_sibling,
                Ordering::Greater => sibling.right_sibling,
                Ordering::Equal => panic!("internal error: insert duplicate"),
            };
        }
        match ordering {
            Ordering::Less => {
                self.dir_entry_mut(prev_sibling_id).left_sibling = stream_id;
                let mut sector =
                    self.seek_within_dir_entry(prev_sibling_id, 68)?;
                sector.write_le_u32(stream_id)?;
            }
            Ordering::Greater => {
                self.dir_entry_mut(prev_sibling_id).right_sibling = stream_id;
                let mut sector =
                    self.seek_within_dir_entry(prev_sibling_id, 72)?;
                sector.write_le_u32(stream_id)?;
            }
            Ordering::Equal => {
                debug_assert_eq!(prev_sibling_id, parent_id);
                self.dir_entry_mut(parent_id).child = stream_id;
                let mut sector = self.seek_within_dir_entry(parent_id, 76)?;
                sector.write_le_u32(stream_id)?;
            }
        }
        // TODO: rebalance tree

        // Write new entry to underyling file.
        self.write_dir_entry(stream_id)?;
        Ok(stream_id)
    }

    /// Removes a directory entry from the tree and deallocates it.
    pub fn remove_dir_entry(
        &mut self,
        parent_id: u32,
        name: &str,
    ) -> io::Result<()> {
        // Find the directory entry with the given name below the parent.
        let mut stream_ids = Vec::new();
        let mut stream_id = self.dir_entry(parent_id).child;
        loop {
            debug_assert_ne!(stream_id, consts::NO_STREAM);
            debug_assert!(!stream_ids.contains(&stream_id));
            stream_ids.push(stream_id);
            let dir_entry = self.dir_entry(stream_id);
            match internal::path::compare_names(name, &dir_entry.name) {
                Ordering::Equal => break,
                Ordering::Less => stream_id = dir_entry.left_sibling,
                Ordering::Greater => stream_id = dir_entry.right_sibling,
            }
        }
        debug_assert_eq!(self.dir_entry(stream_id).child, consts::NO_STREAM);

        // Restructure the tree.
        let left_sibling = self.dir_entry(stream_id).left_sibling;
        let right_sibling = self.dir_entry(stream_id).right_sibling;
        let replacement_id = if left_sibling == consts::NO_STREAM {
            right_sibling
        } else if right_sibling == consts::NO_STREAM {
            left_sibling
        } else {
            // The entry has two children, so its in-order predecessor takes
            // its place in the tree.  Only sibling links change: every entry
            // stays in its slot, so that stream IDs held by open streams
            // remain valid.
            let mut pred_parent_id = stream_id;
            let mut predecessor_id = left_sibling;
            loop {
                let next_id = self.dir_entry(predecessor_id).right_sibling;
                if next_id == consts::NO_STREAM {
                    break;
                }
                pred_parent_id = predecessor_id;
                predecessor_id = next_id;
            }
            if pred_parent_id != stream_id {
                let pred_left = self.dir_entry(predecessor_id).left_sibling;
                self.dir_entry_mut(pred_parent_id).right_sibling = pred_left;
                let mut sector =
                    self.seek_within_dir_entry(pred_parent_id, 72)?;
                sector.write_le_u32(pred_left)?;
                self.dir_entry_mut(predecessor_id).left_sibling = left_sibling;
                let mut sector =
                    self.seek_within_dir_entry(predecessor_id, 68)?;
                sector.write_le_u32(left_sibling)?;
            }
            self.dir_entry_mut(predecessor_id).right_sibling = right_sibling;
            let mut sector = self.seek_within_dir_entry(predecessor_id, 72)?;
            sector.write_le_u32(right_sibling)?;
            predecessor_id
        };
        // TODO: recolor nodes

        // Remove the entry.
        debug_assert_eq!(stream_ids.last(), Some(&stream_id));
        stream_ids.pop();
        if let Some(&sibling_id) = stream_ids.last() {
            if self.dir_entry(sibling_id).left_sibling == stream_id {
                self.dir_entry_mut(sibling_id).left_sibling = replacement_id;
                let mut sector = self.seek_within_dir_entry(sibling_id, 68)?;
                sector.write_le_u32(replacement_id)?;
            } else {
                debug_assert_eq!(
                    self.dir_entry(sibling_id).right_sibling,
                    stream_id
                );
                self.dir_entry_mut(sibling_id).right_sibling = replacement_id;
                let mut sector = self.seek_within_dir_entry(sibling_id, 72)?;
                sector.write_le_u32(replacement_id)?;
            }
        } else {
            self.dir_entry_mut(parent_id).child = replacement_id;
            let mut sector = self.seek_within_dir_entry(parent_id, 76)?;
            sector.write_le_u32(replacement_id)?;
        }
        self.free_dir_entry(stream_id)?;
        Ok(())
    }

    /// Adds a new (uninitialized) entry to the directory and returns the new
    /// stream ID.
    fn allocate_dir_entry(&mut self) -> io::Result<u32> {
        // If there's an existing unalloated directory entry, use that.
        for (stream_id, entry) in self.dir_entries.iter().enumerate() {
            if entry.obj_type == ObjType::Unallocated {
                return Ok(stream_id as u32);
            }
        }
        // Otherwise, we need a new entry; if there's not room in the directory
        // chain to add it, then first we need to add a new directory sector.
        let dir_entries_per_sector = self.version().dir_entries_per_sector();
        let unallocated_dir_entry = DirEntry::unallocated();
        if self.dir_entries.len() % dir_entries_per_sector == 0 {
            let start_sector = self.dir_start_sector;
            self.allocator.extend_chain(start_sector, SectorInit::Dir)?;
            self.update_num_dir_sectors()?;
        }
        // Add a new entry to the end of the directory and return it.
        let stream_id = self.dir_entries.len() as u32;
        self.dir_entries.push(unallocated_dir_entry);
        Ok(stream_id)
    }

    /// Increase header num_dir_sectors if version V4
    /// note: not updating this value breaks ole32 compatibility
    fn update_num_dir_sectors(&mut self) -> io::Result<()> {
        let start_sector = self.dir_start_sector;
        if self.version() == Version::V4 {
            let num_dir_sectors =
                self.count_directory_sectors(start_sector)?;
            self.seek_within_header(40)?.write_le_u32(num_dir_sectors)?;
        }
        Ok(())
    }

    fn count_directory_sectors(
        &mut self,
        start_sector: u32,
    ) -> io::Result<u32> {
        let mut num_dir_sectors = 1;
        let mut next_sector = self.allocator.next(start_sector)?;
        while next_sector != consts::END_OF_CHAIN {
            num_dir_sectors += 1;
            next_sector = self.allocator.next(next_sector)?;
        }
        Ok(num_dir_sectors)
    }

    /// Deallocates the specified directory entry.
    fn free_dir_entry(&mut self, stream_id: u32) -> io::Result<()> {
        debug_assert_ne!(stream_id, consts::ROOT_STREAM_ID);
        let dir_entry = DirEntry::unallocated();
        dir_entry.write_to(&mut self.seek_to_dir_entry(stream_id)?)?;
        *self.dir_entry_mut(stream_id) = dir_entry;
        // TODO: Truncate directory chain if last directory sector is now all
        //       unallocated.
        //       In that case, also call update_num_dir_sectors()
        Ok(())
    }

    /// Calls the given function with a mutable reference to the specified
    /// directory entry, then writes the updated directory entry to the
    /// underlying file once the function returns.
    pub fn with_dir_entry_mut<W>(
        &mut self,
        stream_id: u32,
        func: W,
    ) -> io::Result<()>
    where
        W: FnOnce(&mut DirEntry),
    {
        func(&mut self.dir_entries[stream_id as usize]);
        self.write_dir_entry(stream_id)
    }

    /// Calls the given function with a mutable reference to the root directory
    /// entry, then writes the updated directory entry to the underlying file
    /// once the function returns.
    pub fn with_root_dir_entry_mut<W>(&mut self, func: W) -> io::Result<()>
    where
        W: FnOnce(&mut DirEntry),
    {
        self.with_dir_entry_mut(consts::ROOT_STREAM_ID, func)
    }

    fn write_dir_entry(&mut self, stream_id: u32) -> io::Result<()> {
        let mut chain = self
            .allocator
            .open_chain(self.dir_start_sector, SectorInit::Dir)?;
        let offset = (consts::DIR_ENTRY_LEN as u64) * (stream_id as u64);
        chain.seek(SeekFrom::Start(offset))?;
        self.dir_entries[stream_id as usize].write_to(&mut chain)
    }

    /// Flushes all changes to the underlying file.
    pub fn flush(&mut self) -> io::Result<()> {
        self.allocator.flush()
    }
}

//===========================================================================//

#[cfg(test)]
mod tests {
    use super::Directory;
    use crate::internal::{
        consts, Allocator, Color, DirEntry, ObjType, Sectors, Timestamp,
        Validation, Version,
    };
    use std::io::Cursor;

    fn make_directory(
        entries: Vec<DirEntry>,
        validation: Validation,
    ) -> Directory<Cursor<Vec<u8>>> {
        let version = Version::V3;
        let num_sectors = 3;
        let data_len = (1 + num_sectors) * version.sector_len();
        let cursor = Cursor::new(vec![0; data_len]);
        let sectors = Sectors::new(version, data_len as u64, cursor);
        let mut fat = vec![consts::END_OF_CHAIN; num_sectors];
        fat[0] = consts::FAT_SECTOR;
        let allocator =
            Allocator::new(sectors, vec![], vec![0], fat, validation).unwrap();
        Directory::new(allocator, entries, 1, validation).unwrap()
    }

    #[test]
    #[should_panic(expected = "Malformed directory (root entry is missing)")]
    fn no_root_entry() {
        make_directory(vec![], Validation::Permissive);
    }

    #[test]
    #[should_panic(
        expected = "Malformed directory (root stream len is 147, but should \
                    be multiple of 64)"
    )]
    fn invalid_mini_stream_len() {
        let mut root_entry = DirEntry::empty_root_entry();
        root_entry.start_sector = 2;
        root_entry.stream_len = 147;
        make_directory(vec![root_entry], Validation::Permissive);
    }

    #[test]
    #[should_panic(expected = "Malformed directory (loop in tree)")]
    fn storage_is_child_of_itself() {
        let mut root_entry = DirEntry::empty_root_entry();
        root_entry.child = 1;
        let mut storage =
            DirEntry::new("foo", ObjType::Storage, Timestamp::zero());
        storage.child = 1;
        make_directory(vec![root_entry, storage], Validation::Permissive);
    }

    #[test]
    #[should_panic(
        expected = "Malformed directory (root entry has object type Storage)"
    )]
    fn root_has_wrong_type() {
        let mut root_entry = DirEntry::empty_root_entry();
        root_entry.obj_type = ObjType::Storage;
        make_directory(vec![root_entry], Validation::Permissive);
    }

    #[test]
    #[should_panic(
        expected = "Malformed directory (non-root entry with object type Root)"
    )]
    fn nonroot_has_wrong_type() {
        let mut root_entry = DirEntry::empty_root_entry();
        root_entry.child = 1;
        let storage = DirEntry::new("foo", ObjType::Root, Timestamp::zero());
        make_directory(vec![root_entry, storage], Validation::Permissive);
    }

    #[test]
    fn tolerate_red_root() {
        // The MS-CFB spec section 2.6.4 says the root entry MUST be colored
        // black, but apparently some implementations don't do this (see
        // https://social.msdn.microsoft.com/Forums/sqlserver/en-US/
        // 9290d877-d91f-4509-ace9-cb4575c48514/red-black-tree-in-mscfb).  So
        // we shouldn't complain if the root is red.
        let mut root_entry = DirEntry::empty_root_entry();
        root_entry.color = Color::Red;
        make_directory(vec![root_entry], Validation::Permissive);
    }

    fn make_entries_with_adjacent_red_nodes() -> Vec<DirEntry> {
        let mut root_entry = DirEntry::empty_root_entry();
        root_entry.child = 1;
        let mut storage1 =
            DirEntry::new("foo", ObjType::Storage, Timestamp::zero());
        storage1.color = Color::Red;
        storage1.left_sibling = 2;
        let mut storage2 =
            DirEntry::new("bar", ObjType::Storage, Timestamp::zero());
        storage2.color = Color::Red;
        vec![root_entry, storage1, storage2]
    }

    #[test]
    #[should_panic(
        expected = "Malformed directory (RB tree has adjacent red nodes)"
    )]
    fn adjacent_red_nodes_strict() {
        make_directory(
            make_entries_with_adjacent_red_nodes(),
            Validation::Strict,
        );
    }

    #[test]
    fn adjacent_red_nodes_permissive() {
        make_directory(
            make_entries_with_adjacent_red_nodes(),
            Validation::Permissive,
        );
    }
}

//===========================================================================//
