use std::cmp::Ordering;
use std::collections::HashMap;
use std::io;
use std::path::{Component, Path, PathBuf};
use std::sync::OnceLock;

// ========================================================================= //

pub struct CaseMapper(HashMap<char, char>);

impl CaseMapper {
    fn new() -> CaseMapper {
        // extracted exceptional uppercase characters from icu_casemap library
        CaseMapper(include!("uppercase.txt").iter().copied().collect())
    }
    fn simple_uppercase(&self, c: char) -> char {
        self.0.get(&c).copied().or(c.to_uppercase().next()).unwrap_or_default()
    }
}

const MAX_NAME_LEN: usize = 31;

// ========================================================================= //

/// Converts a char to uppercase as defined in MS-CFB,
/// using simple capitalization and the ability to add exceptions.
/// Used when two directory entry names need to be compared.
fn cfb_uppercase_char(c: char) -> char {
    static CASE_MAPPER: OnceLock<CaseMapper> = OnceLock::new();
    let case_mapper = CASE_MAPPER.get_or_init(CaseMapper::new);

    // TODO: Edge cases can be added that appear
    // in the table from Appendix A, <3> Section 2.6.4

    // Base case, just do a simple uppercase
    // equivalent to icu_casemap::CaseMapper::new().simple_uppercase(c)
    case_mapper.simple_uppercase(c)
}

/// Compares two directory entry names according to CFB ordering, which is
/// case-insensitive, and which always puts shorter names before longer names,
/// as encoded in UTF-16 (i.e. [shortlex
/// order](https://en.wikipedia.org/wiki/Shortlex_order), rather than
/// dictionary order).
pub fn compare_names(name1: &str, name2: &str) -> Ordering {
    // This ASCII fast-path is important for performance.
    // We saw a 10x speedup for many small streams when comparing pure ascii names.
    // Make sure you run the write benchmark before and after changing this code
    // to not introduce regressions.
    if name1.is_ascii() && name2.is_ascii() {
        match name1.len().cmp(&name2.len()) {
            Ordering::Equal => {
                for (left, right) in name1.bytes().zip(name2.bytes()) {
                    let left = left.to_ascii_uppercase();
                    let right = right.to_ascii_uppercase();
                    match left.cmp(&right) {
                        Ordering::Equal => {}
                        other => return other,
                    }
                }
                Ordering::Equal
            }
            other => other,
        }
    } else {
        match name1.encode_utf16().count().cmp(&name2.encode_utf16().count()) {
            // This is actually not 100% correct -- the MS-CFB spec specifies a
            // particular way of doing the uppercasing on individual UTF-16 code
            // units, along with a list of weird exceptions and corner cases.  But
            // hopefully this is good enough for 99+% of the time.
            Ordering::Equal => {
                let n1 = name1.chars().map(cfb_uppercase_char);
                let n2 = name2.chars().map(cfb_uppercase_char);
                n1.cmp(n2)
            }
            other => other,
        }
    }
}

/// Converts a storage/stream name to UTF-16, or returns an error if the name
/// is invalid.
pub fn validate_name(name: &str) -> io::Result<Vec<u16>> {
    let name_utf16: Vec<u16> =
        name.encode_utf16().take(MAX_NAME_LEN + 1).collect();
    if name_utf16.len() > MAX_NAME_LEN {
        invalid_input!(
            "Object name cannot be more than {} UTF-16 code units (was {})",
            MAX_NAME_LEN,
            name.encode_utf16().count()
        );
    }
    for &chr in &['/', '\\', ':', '!'] {
        if name.contains(chr) {
            invalid_input!("Object name cannot contain {} character", chr);
        }
    }
    Ok(name_utf16)
}

// ========================================================================= //

/// Given a path within a compound file, turns it into a list of child names
/// descending from the root.  Returns an error if the name is invalid.
pub fn name_chain_from_path(path: &Path) -> io::Result<Vec<&str>> {
    let mut names: Vec<&str> = Vec::new();
    for component in path.components() {
        match component {
            Component::Prefix(_) => {
                invalid_input!("Invalid path (must not have prefix)");
            }
            Component::RootDir => names.clear(),
            Component::CurDir => {}
            Component::ParentDir => {
                if names.pop().is_none() {
                    invalid_input!("Invalid path (must be within root)");
                }
            }
            Component::Normal(osstr) => match osstr.to_str() {
                Some(name) => names.push(name),
                None => invalid_input!("Non UTF-8 path"),
            },
        }
    }
    Ok(names)
}

pub fn path_from_name_chain(names: &[&str]) -> PathBuf {
    let mut path = PathBuf::from("/");
    for name in names {
        path.push(name);
    }
    path
}

// ========================================================================= //

#[cfg(test)]
mod tests {
    use super::{
        cfb_uppercase_char, compare_names, name_chain_from_path,
        path_from_name_chain, validate_name,
    };
    use std::cmp::Ordering;
    use std::path::{Path, PathBuf};

    #[test]
    fn name_ordering() {
        assert_eq!(compare_names("foobar", "FOOBAR"), Ordering::Equal);
        assert_eq!(compare_names("foo", "barfoo"), Ordering::Less);
        assert_eq!(compare_names("Foo", "bar"), Ordering::Greater);
        // testcases from real .doc files
        assert_eq!(
            compare_names(
                "ÖÇÔÍÒÄÁØÐÔÞ3×ÆXVÔÄHMDQ==",
                "ßYÜ0MÈÝEÄÄÂKÏÓÉDÀP5ÃÝA=="
            ),
            Ordering::Less
        );
        assert_eq!(
            compare_names(
                "É1EDAÉNÅPUOÈÒKÔÓCÓÇÇPÐ==",
                "ßÕFÆRDÜÐNÔCÄ2PKQÃFAFMA=="
            ),
            Ordering::Less
        );

        let uppercase = "ßQÑ52Ç4ÅÁÔÂFÛCWCÙÂNË5Q=="
            .chars()
            .map(cfb_uppercase_char)
            .collect::<String>();

        assert_eq!("ßQÑ52Ç4ÅÁÔÂFÛCWCÙÂNË5Q==", uppercase);

        assert_eq!(
            compare_names(
                "ÜL43ÁMÆÛÏEKZÅYWÚÓVDÙÄÀ==",
                "ßQÑ52Ç4ÅÁÔÂFÛCWCÙÂNË5Q=="
            ),
            Ordering::Less
        );
    }

    #[test]
    fn short_name_is_valid() {
        assert_eq!(
            validate_name("Foobar").unwrap(),
            vec![70, 111, 111, 98, 97, 114]
        );
    }

    #[test]
    #[should_panic(
        expected = "Object name cannot be more than 31 UTF-16 code units \
                    (was 35)"
    )]
    fn long_name_is_invalid() {
        validate_name("ThisNameIsMostDefinitelyMuchTooLong").unwrap();
    }

    #[test]
    #[should_panic(expected = "Object name cannot contain / character")]
    fn name_with_slash_is_invalid() {
        validate_name("foo/bar").unwrap();
    }

    #[test]
    fn absolute_path_is_valid() {
        assert_eq!(
            name_chain_from_path(Path::new("/foo/bar/baz/")).unwrap(),
            vec!["foo", "bar", "baz"]
        );
    }

    #[test]
    fn relative_path_is_valid() {
        assert_eq!(
            name_chain_from_path(Path::new("foo/bar/baz")).unwrap(),
            vec!["foo", "bar", "baz"]
        );
    }

    #[test]
    fn path_with_parents_is_valid() {
        assert_eq!(
            name_chain_from_path(Path::new("foo/bar/../baz")).unwrap(),
            vec!["foo", "baz"]
        );
    }

    #[test]
    #[should_panic(expected = "Invalid path (must be within root)")]
    fn parent_of_root_is_invalid() {
        name_chain_from_path(Path::new("foo/../../baz")).unwrap();
    }

    #[test]
    fn canonical_path_is_absolute() {
        let path = Path::new("foo/bar/../baz");
        let names = name_chain_from_path(path).unwrap();
        assert_eq!(path_from_name_chain(&names), PathBuf::from("/foo/baz"));
    }

    #[ignore = "add icu_casemap to dependencies to regenerate exceptional uppercase chars"]
    #[test]
    fn uppercase_generation() {
        use std::fmt;

        struct AsArray(Vec<(char, char)>);

        impl fmt::Display for AsArray {
            fn fmt(&self, f: &mut fmt::Formatter<'_>) -> fmt::Result {
                f.write_str("[")?;
                let s = self
                    .0
                    .iter()
                    .map(|(input, output)| format!("('{input}', '{output}')"))
                    .collect::<Vec<_>>()
                    .join(", ");
                f.write_str(&s)?;
                f.write_str("]")
            }
        }

        let case_mapper = super::CaseMapper::new();
        // uncomment line to regenerate exceptions
        // let case_mapper = icu_casemap::CaseMapper::new();
        let mut nonequal = Vec::new();
        for i in 0..u32::MAX {
            let Some(c) = char::from_u32(i) else {
                continue;
            };
            let u1 = case_mapper.simple_uppercase(c);
            let mut uppers = c.to_uppercase();
            let u2 = uppers.next().unwrap();
            if u1 != u2 || uppers.next().is_some() {
                nonequal.push((c, u1));
            }
        }
        let array = AsArray(nonequal);
        std::fs::write("src/internal/uppercase.txt", array.to_string())
            .unwrap();
    }
}

// ========================================================================= //
