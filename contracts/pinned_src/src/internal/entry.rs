use crate::internal::{consts, DirEntry, MiniAllocator, ObjType, Timestamp};
use std::fmt;
use std::path::{Path, PathBuf};
use std::sync::{Arc, RwLock};
use uuid::Uuid;
use web_time::SystemTime;

//===========================================================================//

/// Metadata about a single object (storage or stream) in a compound file.
#[derive(Clone)]
pub struct Entry {
    name: String,
    path: PathBuf,
    obj_type: ObjType,
    clsid: Uuid,
    state_bits: u32,
    creation_time: Timestamp,
    modified_time: Timestamp,
    stream_len: u64,
}

impl Entry {
    pub(crate) fn new(dir_entry: &DirEntry, path: PathBuf) -> Entry {
        Entry {
            name: dir_entry.name.clone(),
            path,
            obj_type: dir_entry.obj_type,
            clsid: dir_entry.clsid,
            state_bits: dir_entry.state_bits,
            creation_time: dir_entry.creation_time,
            modified_time: dir_entry.modified_time,
            stream_len: dir_entry.stream_len,
        }
    }

    /// Returns the name of the object that this entry represents.
    pub fn name(&self) -> &str {
        &self.name
    }

    /// Returns the full path to the object that this entry represents.
    pub fn path(&self) -> &Path {
        &self.path
    }

    /// Returns whether this entry is for a stream object (i.e. a "file" within
    /// the compound file).
    pub fn is_stream(&self) -> bool {
        self.obj_type == ObjType::Stream
    }

    /// Returns whether this entry is for a storage object (i.e. a "directory"
    /// within the compound file), either the root or a nested storage.
    pub fn is_storage(&self) -> bool {
        self.obj_type == ObjType::Storage || self.obj_type == ObjType::Root
    }

    /// Returns whether this entry is specifically for the root storage object
    /// of the compound file.
    pub fn is_root(&self) -> bool {
        self.obj_type == ObjType::Root
    }

    /// Returns the size, in bytes, of the stream that this metadata is for.
    pub fn len(&self) -> u64 {
        self.stream_len
    }

    /// Returns true if the stream is empty.
    pub fn is_empty(&self) -> bool {
        self.stream_len == 0
    }

    /// Returns the CLSID (that is, the object class GUID) for this object.
    /// This will always be all zeros for stream objects.
    pub fn clsid(&self) -> &Uuid {
        &self.clsid
    }

    /// Returns the user-defined bitflags set for this object.
    pub fn state_bits(&self) -> u32 {
        self.state_bits
    }

    /// Returns the time when the object that this entry represents was
    /// created.
    pub fn created(&self) -> SystemTime {
        self.creation_time.to_system_time()
    }

    /// Returns the time when the object that this entry represents was last
    /// modified.
    pub fn modified(&self) -> SystemTime {
        self.modified_time.to_system_time()
    }
}

impl fmt::Debug for Entry {
    fn fmt(&self, f: &mut fmt::Formatter<'_>) -> Result<(), fmt::Error> {
        write!(
            f,
            "{path} ({len} bytes)",
            path = self.path().display(),
            len = self.len()
        )
    }
}

//===========================================================================//

#[derive(Clone, Copy, Eq, PartialEq)]
pub enum EntriesOrder {
    Nonrecursive,
    Preorder,
}

//===========================================================================//

/// An iterator over the entries in a storage object.
pub struct Entries<'a, F: 'a> {
    order: EntriesOrder,
    // TODO: Consider storing a Weak<RefCell<MiniAllocator<F>>> here instead of
    // a reference to the Rc.  That would allow e.g. opening streams during
    // iteration.  But we'd need to think about how the iterator should behave
    // if the CFB tree structure is modified during iteration.
    minialloc: &'a Arc<RwLock<MiniAllocator<F>>>,
    stack: Vec<(PathBuf, u32, bool)>,
}

impl<'a, F> Entries<'a, F> {
    pub(crate) fn new(
        order: EntriesOrder,
        minialloc: &'a Arc<RwLock<MiniAllocator<F>>>,
        parent_path: PathBuf,
        start: u32,
    ) -> Entries<'a, F> {
        let mut entries = Entries { order, minialloc, stack: Vec::new() };
        match order {
            EntriesOrder::Nonrecursive => {
                entries.stack_left_spine(&parent_path, start);
            }
            EntriesOrder::Preorder => {
                entries.stack.push((parent_path, start, false));
            }
        }
        entries
    }

    fn stack_left_spine(&mut self, parent_path: &Path, mut current_id: u32) {
        let minialloc = self.minialloc.read().unwrap();
        while current_id != consts::NO_STREAM {
            self.stack.push((parent_path.to_path_buf(), current_id, true));
            current_id = minialloc.dir_entry(current_id).left_sibling;
        }
    }
}

impl<'a, F> Iterator for Entries<'a, F> {
    type Item = Entry;

    fn next(&mut self) -> Option<Entry> {
        if let Some((parent, stream_id, visit_siblings)) = self.stack.pop() {
            let minialloc = self.minialloc.read().unwrap();
            let dir_entry = minialloc.dir_entry(stream_id);
            let path = join_path(&parent, dir_entry);
            if visit_siblings {
                self.stack_left_spine(&parent, dir_entry.right_sibling);
            }
            if self.order == EntriesOrder::Preorder
                && dir_entry.obj_type != ObjType::Stream
                && dir_entry.child != consts::NO_STREAM
            {
                self.stack_left_spine(&path, dir_entry.child);
            }
            Some(Entry::new(dir_entry, path))
        } else {
            None
        }
    }
}

//===========================================================================//

fn join_path(parent_path: &Path, dir_entry: &DirEntry) -> PathBuf {
    if dir_entry.obj_type == ObjType::Root {
        parent_path.to_path_buf()
    } else {
        parent_path.join(&dir_entry.name)
    }
}

//===========================================================================//

#[cfg(test)]
mod tests {
    use super::{Entries, EntriesOrder, Entry};
    use crate::internal::consts::{self, NO_STREAM, ROOT_DIR_NAME};
    use crate::internal::{
        Allocator, DirEntry, Directory, MiniAllocator, ObjType, Sectors,
        Timestamp, Validation, Version,
    };
    use std::path::{Path, PathBuf};
    use std::sync::{Arc, RwLock};

    fn make_entry(
        name: &str,
        obj_type: ObjType,
        left: u32,
        child: u32,
        right: u32,
    ) -> DirEntry {
        let mut dir_entry = DirEntry::new(name, obj_type, Timestamp::zero());
        dir_entry.left_sibling = left;
        dir_entry.child = child;
        dir_entry.right_sibling = right;
        dir_entry
    }

    fn make_minialloc() -> Arc<RwLock<MiniAllocator<()>>> {
        // Root contains:      3 contains:
        //      5                  8
        //     / \                / \
        //    3   6              7   9
        //   / \
        //  1   4
        //   \
        //    2
        let dir_entries = vec![
            make_entry(ROOT_DIR_NAME, ObjType::Root, NO_STREAM, 5, NO_STREAM),
            make_entry("1", ObjType::Stream, NO_STREAM, NO_STREAM, 2),
            make_entry("2", ObjType::Stream, NO_STREAM, NO_STREAM, NO_STREAM),
            make_entry("3", ObjType::Storage, 1, 8, 4),
            make_entry("4", ObjType::Stream, NO_STREAM, NO_STREAM, NO_STREAM),
            make_entry("5", ObjType::Stream, 3, NO_STREAM, 6),
            make_entry("6", ObjType::Storage, NO_STREAM, NO_STREAM, NO_STREAM),
            make_entry("7", ObjType::Stream, NO_STREAM, NO_STREAM, NO_STREAM),
            make_entry("8", ObjType::Stream, 7, NO_STREAM, 9),
            make_entry("9", ObjType::Stream, NO_STREAM, NO_STREAM, NO_STREAM),
        ];
        let version = Version::V3;
        let sectors =
            Sectors::new(version, 3 * version.sector_len() as u64, ());
        let allocator = Allocator::new(
            sectors,
            vec![],
            vec![0],
            vec![consts::FAT_SECTOR, consts::END_OF_CHAIN],
            Validation::Strict,
        )
        .unwrap();
        let directory =
            Directory::new(allocator, dir_entries, 1, Validation::Strict)
                .unwrap();
        let minialloc = MiniAllocator::new(
            directory,
            vec![],
            consts::END_OF_CHAIN,
            Validation::Strict,
        )
        .unwrap();
        Arc::new(RwLock::new(minialloc))
    }

    fn paths_for_entries(entries: &[Entry]) -> Vec<&Path> {
        entries.iter().map(|entry| entry.path()).collect()
    }

    #[test]
    fn nonrecursive_entries_from_root() {
        let minialloc = make_minialloc();
        let entries: Vec<Entry> = Entries::new(
            EntriesOrder::Nonrecursive,
            &minialloc,
            PathBuf::from("/"),
            5,
        )
        .collect();
        let paths = paths_for_entries(&entries);
        assert_eq!(
            paths,
            vec![
                Path::new("/1"),
                Path::new("/2"),
                Path::new("/3"),
                Path::new("/4"),
                Path::new("/5"),
                Path::new("/6")
            ]
        );
    }

    #[test]
    fn nonrecursive_entries_from_storage() {
        let minialloc = make_minialloc();
        let entries: Vec<Entry> = Entries::new(
            EntriesOrder::Nonrecursive,
            &minialloc,
            PathBuf::from("/3"),
            8,
        )
        .collect();
        let paths = paths_for_entries(&entries);
        assert_eq!(
            paths,
            vec![Path::new("/3/7"), Path::new("/3/8"), Path::new("/3/9")]
        );
    }

    #[test]
    fn preorder_entries_from_root() {
        let minialloc = make_minialloc();
        let entries: Vec<Entry> = Entries::new(
            EntriesOrder::Preorder,
            &minialloc,
            PathBuf::from("/"),
            0,
        )
        .collect();
        let paths = paths_for_entries(&entries);
        assert_eq!(
            paths,
            vec![
                Path::new("/"),
                Path::new("/1"),
                Path::new("/2"),
                Path::new("/3"),
                Path::new("/3/7"),
                Path::new("/3/8"),
                Path::new("/3/9"),
                Path::new("/4"),
                Path::new("/5"),
                Path::new("/6"),
            ]
        );
    }

    #[test]
    fn preorder_entries_from_storage() {
        let minialloc = make_minialloc();
        let entries: Vec<Entry> = Entries::new(
            EntriesOrder::Preorder,
            &minialloc,
            PathBuf::from("/"),
            3,
        )
        .collect();
        let paths = paths_for_entries(&entries);
        assert_eq!(
            paths,
            vec![
                Path::new("/3"),
                Path::new("/3/7"),
                Path::new("/3/8"),
                Path::new("/3/9")
            ]
        );
    }
}

//===========================================================================//
