// ========================================================================= //

macro_rules! already_exists {
    ($e:expr) => {
        return Err(::std::io::Error::new(::std::io::ErrorKind::AlreadyExists,
                                         $e))
    };
    ($fmt:expr, $($arg:tt)+) => {
        return Err(::std::io::Error::new(::std::io::ErrorKind::AlreadyExists,
                                         format!($fmt, $($arg)+)))
    };
}

macro_rules! invalid_data {
    ($e:expr) => {
        return Err(::std::io::Error::new(::std::io::ErrorKind::InvalidData,
                                         $e))
    };
    ($fmt:expr, $($arg:tt)+) => {
        return Err(::std::io::Error::new(::std::io::ErrorKind::InvalidData,
                                         format!($fmt, $($arg)+)))
    };
}

macro_rules! invalid_input {
    ($e:expr) => {
        return Err(::std::io::Error::new(::std::io::ErrorKind::InvalidInput,
                                         $e))
    };
    ($fmt:expr, $($arg:tt)+) => {
        return Err(::std::io::Error::new(::std::io::ErrorKind::InvalidInput,
                                         format!($fmt, $($arg)+)))
    };
}

macro_rules! not_found {
    ($e:expr) => {
        return Err(::std::io::Error::new(::std::io::ErrorKind::NotFound, $e))
    };
    ($fmt:expr, $($arg:tt)+) => {
        return Err(::std::io::Error::new(::std::io::ErrorKind::NotFound,
                                         format!($fmt, $($arg)+)))
    };
}

// ========================================================================= //
