//! Replays of failed obligations against the real library (DESIGN.md 3.7).
//! `vxreplay <scenario>`: exit 0 = the behaviour the property demands was observed,
//! exit 1 = the violation reproduced (printed), exit 2 = unknown scenario.
use std::io::{Cursor, Read, Seek, SeekFrom, Write};
use std::panic;

mod scenarios;

fn main() {
    let name = std::env::args().nth(1).unwrap_or_default();
    panic::set_hook(Box::new(|_| {}));
    // watchdog: a scenario that does not finish within 60 s is reported as a hang
    let (tx, rx) = std::sync::mpsc::channel();
    let n2 = name.clone();
    std::thread::spawn(move || {
        let r = panic::catch_unwind(|| scenarios::run(&n2));
        let _ = tx.send(r);
    });
    let r = match rx.recv_timeout(std::time::Duration::from_secs(60)) {
        Ok(r) => r,
        Err(_) => {
            println!("VIOLATED {name}: HANG (no result after 60 s)");
            std::process::exit(1)
        }
    };
    match r {
        Ok(Some(Ok(msg))) => {
            println!("HOLDS {name}: {msg}");
            std::process::exit(0)
        }
        Ok(Some(Err(msg))) => {
            println!("VIOLATED {name}: {msg}");
            std::process::exit(1)
        }
        Ok(None) => {
            eprintln!("unknown scenario {name}");
            std::process::exit(2)
        }
        Err(e) => {
            let m = e
                .downcast_ref::<String>()
                .cloned()
                .or_else(|| e.downcast_ref::<&str>().map(|s| s.to_string()))
                .unwrap_or_else(|| "panic".into());
            println!("VIOLATED {name}: PANIC {m}");
            std::process::exit(1)
        }
    }
}

#[allow(dead_code)]
pub fn le32_patch(buf: &mut [u8], off: usize, v: u32) {
    buf[off..off + 4].copy_from_slice(&v.to_le_bytes());
}

/// A Read+Write+Seek wrapper that fails the n-th call of a given kind.
#[allow(dead_code)]
pub struct Faulty {
    pub inner: Cursor<Vec<u8>>,
    pub fail_reads: Vec<usize>,
    pub fail_writes: Vec<usize>,
    pub reads: usize,
    pub writes: usize,
    pub armed: bool,
}
#[allow(dead_code)]
impl Faulty {
    pub fn new(data: Vec<u8>) -> Faulty {
        Faulty { inner: Cursor::new(data), fail_reads: vec![], fail_writes: vec![], reads: 0, writes: 0, armed: false }
    }
}
impl Read for Faulty {
    fn read(&mut self, buf: &mut [u8]) -> std::io::Result<usize> {
        if self.armed {
            self.reads += 1;
            if self.fail_reads.contains(&self.reads) {
                return Err(std::io::Error::other("injected read fault"));
            }
        }
        self.inner.read(buf)
    }
}
impl Write for Faulty {
    fn write(&mut self, buf: &[u8]) -> std::io::Result<usize> {
        if self.armed {
            self.writes += 1;
            if self.fail_writes.contains(&self.writes) {
                return Err(std::io::Error::other("injected write fault"));
            }
        }
        self.inner.write(buf)
    }
    fn flush(&mut self) -> std::io::Result<()> {
        self.inner.flush()
    }
}
impl Seek for Faulty {
    fn seek(&mut self, pos: SeekFrom) -> std::io::Result<u64> {
        self.inner.seek(pos)
    }
}
