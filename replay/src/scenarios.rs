use crate::le32_patch;
use cfb::{CompoundFile, Version};
use std::io::{Cursor, Read, Seek, SeekFrom, Write};

type R = Option<Result<String, String>>;

fn fresh(version: Version) -> Vec<u8> {
    let c = CompoundFile::create_with_version(version, Cursor::new(Vec::new())).unwrap();
    c.into_inner().into_inner()
}

pub fn run(name: &str) -> R {
    Some(match name {
        // F5a (C11): root entry's never-validated start sector; mini-stream growth walks it unchecked
        "c11_root_start_sector_out_of_range" => {
            let mut img = fresh(Version::V3);
            // directory sector is sector 1 => file offset 2*512; root entry start sector at +116
            le32_patch(&mut img, 2 * 512 + 116, 1000);
            let mut c = match CompoundFile::open(Cursor::new(img)) {
                Ok(c) => c,
                Err(e) => return Some(Ok(format!("open refused: {e}"))),
            };
            let r = c.create_stream("/s").and_then(|mut s| {
                s.write_all(&[7u8; 10])?;
                s.flush()
            });
            Ok(format!("create+write returned {:?} (no panic)", r.map_err(|e| e.to_string())))
        }
        // F5c (C11): file has more sectors than its FAT covers; open pads the cached FAT beyond what the
        // DIFAT can address, the padded cells go on the free list, the first allocation indexes past the DIFAT
        "c11_fat_padded_beyond_difat" => {
            let mut img = fresh(Version::V3);
            // append 200 zero sectors: 203 sectors but one FAT sector (128 entries)
            img.extend(std::iter::repeat(0u8).take(200 * 512));
            let mut c = match CompoundFile::open(Cursor::new(img)) {
                Ok(c) => c,
                Err(e) => return Some(Ok(format!("open refused: {e}"))),
            };
            let r = c.create_stream("/s").and_then(|mut s| {
                s.write_all(&vec![7u8; 5000])?;
                s.flush()
            });
            Ok(format!("create+write returned {:?} (no panic)", r.map_err(|e| e.to_string())))
        }
        _ => return None,
    })
}

#[allow(dead_code)]
fn read_all<F: Read + Seek>(c: &mut CompoundFile<F>, path: &str) -> std::io::Result<Vec<u8>> {
    let mut s = c.open_stream(path)?;
    let mut v = Vec::new();
    s.seek(SeekFrom::Start(0))?;
    s.read_to_end(&mut v)?;
    Ok(v)
}
