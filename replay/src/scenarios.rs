use crate::le32_patch;
use cfb::{CompoundFile, Version};
use std::io::{Cursor, Read, Seek, SeekFrom, Write};

type R = Option<Result<String, String>>;

// a backing store whose bytes can be looked at while the compound file is alive
#[derive(Clone)]
struct SharedStore(std::rc::Rc<std::cell::RefCell<Cursor<Vec<u8>>>>);
impl SharedStore {
    fn new() -> SharedStore { SharedStore(std::rc::Rc::new(std::cell::RefCell::new(Cursor::new(Vec::new())))) }
    fn snapshot(&self) -> Vec<u8> { self.0.borrow().get_ref().clone() }
}
impl Read for SharedStore { fn read(&mut self, b: &mut [u8]) -> std::io::Result<usize> { self.0.borrow_mut().read(b) } }
impl Write for SharedStore {
    fn write(&mut self, b: &[u8]) -> std::io::Result<usize> { self.0.borrow_mut().write(b) }
    fn flush(&mut self) -> std::io::Result<()> { self.0.borrow_mut().flush() }
}
impl Seek for SharedStore { fn seek(&mut self, p: SeekFrom) -> std::io::Result<u64> { self.0.borrow_mut().seek(p) } }

fn fresh(version: Version) -> Vec<u8> {
    let c = CompoundFile::create_with_version(version, Cursor::new(Vec::new())).unwrap();
    c.into_inner().into_inner()
}

pub fn run(name: &str) -> R {
    Some(match name {
        // C03: "unallocated entries are blank" - MS-CFB 2.6.3: all zero except the three links (NOSTREAM)
        "c03_unallocated_entries_are_blank" => {
            for version in [Version::V3, Version::V4] {
                let sl = version.sector_len();
                // (a) the unused slots of a fresh directory sector, (b) the slot of a removed stream
                let mut c = CompoundFile::create_with_version(version, Cursor::new(Vec::new())).unwrap();
                c.create_stream("/a").unwrap().write_all(&[1u8; 10]).unwrap();
                c.create_stream("/b").unwrap().write_all(&[2u8; 10]).unwrap();
                c.remove_stream("/a").unwrap();
                c.flush().unwrap();
                let img = c.into_inner().into_inner();
                let dir = 2 * sl; // directory sector is sector 1
                let per = sl / 128;
                for slot in 0..per {
                    let e = &img[dir + 128 * slot..dir + 128 * (slot + 1)];
                    if e[66] != 0 { continue; } // allocated
                    for (i, b) in e.iter().enumerate() {
                        let want = if (68..80).contains(&i) { 0xffu8 } else { 0u8 };
                        if *b != want {
                            return Some(Err(format!("{:?}: unallocated slot {} has byte {:#04x} at offset {} (expected {:#04x})", version, slot, b, i, want)));
                        }
                    }
                }
            }
            Ok("every unallocated slot is zero except its three NOSTREAM links".into())
        }
        // F5a (C11): root entry's never-validated start sector; mini-stream growth walks it unchecked
        "c11_root_start_sector_out_of_range" => {
            let mut img = fresh(Version::V3);
            // directory sector is sector 1 => file offset 2*512; root entry start sector at +116
            le32_patch(&mut img, 2 * 512 + 116, 1000);
            let mut c = match CompoundFile::open(Cursor::new(img)) {
                Ok(c) => c,
                Err(e) => return Some(Ok(format!("open refused: {e}"))),
            };
            let r = c.create_stream("/s").and_then(|mut s| {
                s.write_all(&[7u8; 10])?;
                s.flush()
            });
            Ok(format!("create+write returned {:?} (no panic)", r.map_err(|e| e.to_string())))
        }
        // F5c (C11): file has more sectors than its FAT covers; open pads the cached FAT beyond what the
        // DIFAT can address, the padded cells go on the free list, the first allocation indexes past the DIFAT
        "c11_fat_padded_beyond_difat" => {
            let mut img = fresh(Version::V3);
            // append 200 zero sectors: 203 sectors but one FAT sector (128 entries)
            img.extend(std::iter::repeat(0u8).take(200 * 512));
            let mut c = match CompoundFile::open(Cursor::new(img)) {
                Ok(c) => c,
                Err(e) => return Some(Ok(format!("open refused: {e}"))),
            };
            let r = c.create_stream("/s").and_then(|mut s| {
                s.write_all(&vec![7u8; 5000])?;
                s.flush()
            });
            Ok(format!("create+write returned {:?} (no panic)", r.map_err(|e| e.to_string())))
        }
        // F6 (C07): removing an entry with two children moves its in-order predecessor into the victim's slot, so a
        // handle on the predecessor ends up on a freed (later reused) slot
        "c07_handle_on_predecessor_survives_removal" => {
            let mut c = CompoundFile::create_with_version(Version::V3, Cursor::new(Vec::new())).unwrap();
            for n in ["m", "c", "x", "a", "d"] {
                let mut s = c.create_stream(format!("/{n}")).unwrap();
                s.write_all(n.as_bytes()).unwrap();
            }
            let mut h = c.open_stream("/d").unwrap();
            c.remove_stream("/m").unwrap();
            { let mut z = c.create_stream("/zz").unwrap(); z.write_all(b"ZZ").unwrap(); }
            h.seek(SeekFrom::End(0)).unwrap();
            h.write_all(b"-via-handle").unwrap();
            h.flush().unwrap();
            drop(h);
            let d = read_all(&mut c, "/d").unwrap();
            let zz = read_all(&mut c, "/zz").unwrap();
            if d == b"d-via-handle" && zz == b"ZZ" {
                Ok("write through the handle on /d landed in /d; /zz untouched".into())
            } else {
                Err(format!("/d = {:?}, /zz = {:?}", String::from_utf8_lossy(&d), String::from_utf8_lossy(&zz)))
            }
        }
        // regression net for the removal repair: random create/remove histories against a sorted-set model,
        // strict reopen after every 16 steps
        "c01_random_create_remove_vs_model" => {
            let mut seed: u64 = 0x9E3779B97F4A7C15;
            let mut next = move || { seed ^= seed << 13; seed ^= seed >> 7; seed ^= seed << 17; seed };
            for round in 0..40 {
                let mut c = CompoundFile::create_with_version(if round % 2 == 0 { Version::V3 } else { Version::V4 }, Cursor::new(Vec::new())).unwrap();
                let mut model: std::collections::BTreeMap<(usize, String), Vec<u8>> = Default::default();
                for step in 0..200 {
                    let k = next() % 40;
                    let name = format!("{}{}", "n".repeat((k % 3) as usize + 1), k);
                    let key = (name.len(), name.to_uppercase());
                    if next() % 3 != 0 {
                        if !model.contains_key(&key) {
                            let data = vec![(k as u8); (next() % 100) as usize];
                            let mut s = c.create_stream(format!("/{name}")).unwrap();
                            s.write_all(&data).unwrap();
                            drop(s);
                            model.insert(key, data);
                        }
                    } else if model.contains_key(&key) {
                        c.remove_stream(format!("/{name}")).unwrap();
                        model.remove(&key);
                    } else if c.remove_stream(format!("/{name}")).is_ok() {
                        return Some(Err(format!("removed a missing stream {name}")));
                    }
                    let listed: Vec<String> = c.read_root_storage().map(|e| e.name().to_uppercase()).collect();
                    let want: Vec<String> = model.keys().map(|k| k.1.clone()).collect();
                    if listed != want { return Some(Err(format!("round {round} step {step}: listing {listed:?} != model {want:?}"))); }
                    if step % 16 == 15 {
                        let bytes = c.into_inner().into_inner();
                        c = match CompoundFile::open_strict(Cursor::new(bytes)) { Ok(c) => c, Err(e) => return Some(Err(format!("strict reopen failed: {e}"))) };
                        for (k, v) in model.iter() {
                            let got = read_all(&mut c, &format!("/{}", k.1)).unwrap();
                            if &got != v { return Some(Err(format!("content of {} differs after reopen", k.1))); }
                        }
                    }
                }
            }
            Ok("40 rounds x 200 steps agree with the model".into())
        }
        // F5d (C11): remove_stream frees a mini chain with unchecked MiniFAT indexing; the stream's start
        // sector is not validated when the file is opened
        "c11_remove_stream_mini_start_out_of_range" => {
            let mut c = CompoundFile::create_with_version(Version::V3, Cursor::new(Vec::new())).unwrap();
            { let mut s = c.create_stream("/s").unwrap(); s.write_all(&[7u8; 10]).unwrap(); }
            let mut img = c.into_inner().into_inner();
            // directory sector is sector 1; entry 1 is "/s"; start sector field at +116
            le32_patch(&mut img, 2 * 512 + 128 + 116, 1000);
            let mut c = match CompoundFile::open(Cursor::new(img)) {
                Ok(c) => c,
                Err(e) => return Some(Ok(format!("open refused: {e}"))),
            };
            let r = c.remove_stream("/s");
            Ok(format!("remove_stream returned {:?} (no panic)", r.map_err(|e| e.to_string())))
        }
        // F5e (C11): a cyclic mini chain (each mini sector pointed to once, so open accepts it); freeing it
        // truncates the MiniFAT under the walk
        "c11_remove_stream_mini_cycle" => {
            let mut c = CompoundFile::create_with_version(Version::V3, Cursor::new(Vec::new())).unwrap();
            { let mut s = c.create_stream("/s").unwrap(); s.write_all(&[7u8; 100]).unwrap(); }
            let mut img = c.into_inner().into_inner();
            let minifat_sector = u32::from_le_bytes(img[60..64].try_into().unwrap()) as usize;
            // mini chain 0 -> 1 -> END becomes 0 -> 1 -> 0
            le32_patch(&mut img, (minifat_sector + 1) * 512 + 4, 0);
            let mut c = match CompoundFile::open(Cursor::new(img)) {
                Ok(c) => c,
                Err(e) => return Some(Ok(format!("open refused: {e}"))),
            };
            let r = c.remove_stream("/s");
            Ok(format!("remove_stream returned {:?} (no panic)", r.map_err(|e| e.to_string())))
        }
        // F5f (C11): a version-4 root entry may claim any 64-bit mini stream length (multiple of 64); the next mini
        // sector allocation adds 64 to it
        "c11_v4_root_stream_len_near_u64_max" => {
            let mut c = CompoundFile::create_with_version(Version::V4, Cursor::new(Vec::new())).unwrap();
            { let mut s = c.create_stream("/a").unwrap(); s.write_all(&[1u8; 10]).unwrap(); }
            let mut img = c.into_inner().into_inner();
            let dir_start = u32::from_le_bytes(img[48..52].try_into().unwrap()) as usize;
            let off = (dir_start + 1) * 4096 + 120;
            img[off..off + 8].copy_from_slice(&0xFFFF_FFFF_FFFF_FFC0u64.to_le_bytes());
            let mut c = match CompoundFile::open(Cursor::new(img)) {
                Ok(c) => c,
                Err(e) => return Some(Ok(format!("open refused: {e}"))),
            };
            let r = c.create_stream("/s").and_then(|mut s| {
                s.write_all(&[7u8; 10])?;
                s.flush()
            });
            Ok(format!("create+write returned {:?} (no panic)", r.map_err(|e| e.to_string())))
        }
        // F11 (C11): a stream entry may claim a length without having a start sector; open accepts it, the write-back
        // and resize paths assert that such a stream is empty
        "c11_stream_len_without_start_sector" => {
            let mut out = Vec::new();
            for grow in [false, true] {
                let mut c = CompoundFile::create_with_version(Version::V3, Cursor::new(Vec::new())).unwrap();
                c.create_stream("/s").unwrap();
                let mut img = c.into_inner().into_inner();
                // directory sector is sector 1; entry 1 is "/s": stream_len field at +120
                img[2 * 512 + 128 + 120..2 * 512 + 128 + 128].copy_from_slice(&100u64.to_le_bytes());
                let mut c = match CompoundFile::open(Cursor::new(img)) {
                    Ok(c) => c,
                    Err(e) => return Some(Ok(format!("open refused: {e}"))),
                };
                let r = c.open_stream("/s").and_then(|mut s| {
                    if grow { s.set_len(200)?; } else { s.write_all(&[7u8; 10])?; }
                    s.flush()
                });
                out.push(format!("{} returned {:?}", if grow { "set_len" } else { "write+flush" }, r.map_err(|e| e.to_string())));
            }
            Ok(format!("{} (no panic)", out.join("; ")))
        }
        // F8 (C13): a write-back that fails must not lose the dirty marker: a later flush that returns Ok means the
        // bytes are in the file
        "c13_failed_write_back_is_retried" => {
            for size in [100usize, 5000] {
                // count the underlying writes of an unfaulted flush
                let total = {
                    let st = FStore::default();
                    let mut c = CompoundFile::create_with_version(Version::V3, st.clone()).unwrap();
                    let mut s = c.create_stream("/s").unwrap();
                    s.write_all(&vec![0x5Au8; size]).unwrap();
                    st.plan.borrow_mut().armed = true;
                    s.flush().unwrap();
                    let n = st.plan.borrow().writes;
                    n
                };
                for k in 1..=total {
                    let st = FStore::default();
                    let mut c = CompoundFile::create_with_version(Version::V3, st.clone()).unwrap();
                    let mut s = c.create_stream("/s").unwrap();
                    s.write_all(&vec![0x5Au8; size]).unwrap();
                    { let mut p = st.plan.borrow_mut(); p.armed = true; p.fail_writes = vec![k]; }
                    let first = s.flush();
                    st.plan.borrow_mut().armed = false;
                    if first.is_ok() { continue; }
                    let second = s.flush();
                    drop(s);
                    if second.is_ok() {
                        match read_all(&mut c, "/s") {
                            Ok(got) if got == vec![0x5Au8; size] => {}
                            Ok(got) => return Some(Err(format!("{size} bytes written, underlying write #{k} of the flush failed (flush returned Err), the next flush returned Ok, but a fresh handle reads {} bytes", got.len()))),
                            Err(e) => return Some(Err(format!("{size} bytes, fault at write #{k}: flush Ok after retry but reading back fails: {e}"))),
                        }
                    }
                }
            }
            Ok("after every single write fault, a flush that returns Ok has the data in the file".into())
        }
        // F2 (C06): extreme seek arguments are refused, not a panic
        "c06_seek_extremes_do_not_panic" => {
            let mut c = CompoundFile::create_with_version(Version::V3, Cursor::new(Vec::new())).unwrap();
            let mut s = c.create_stream("/s").unwrap();
            s.write_all(&[1u8; 10]).unwrap();
            let mut out = Vec::new();
            for p in [SeekFrom::End(i64::MIN), SeekFrom::Current(i64::MIN), SeekFrom::End(i64::MAX), SeekFrom::Current(i64::MAX), SeekFrom::Start(u64::MAX)] {
                let r = s.seek(p);
                if r.is_ok() { return Some(Err(format!("seek({p:?}) on a 10-byte stream returned {r:?}"))); }
                let pos = s.stream_position().unwrap();
                if pos != 10 { return Some(Err(format!("refused seek({p:?}) moved the position to {pos}"))); }
                out.push(format!("{p:?}: refused"));
            }
            Ok(out.join("; "))
        }
        // (C11/C06) set_len with an absurd size is an error, not a panic
        "c06_set_len_huge_does_not_panic" => {
            let mut out = Vec::new();
            for size in [u64::MAX, u64::MAX - 511, 1u64 << 63] {
                let mut c = CompoundFile::create_with_version(Version::V3, Cursor::new(Vec::new())).unwrap();
                let mut s = c.create_stream("/s").unwrap();
                s.write_all(&[1u8; 10]).unwrap();
                let r = s.set_len(size);
                out.push(format!("set_len({size}) -> {:?}", r.map_err(|e| e.to_string())));
            }
            Ok(out.join("; "))
        }
        // F7 (C12): after a failed refill the handle must not serve a stale window at the new offset
        "c12_failed_refill_serves_no_stale_bytes" => {
            // content: byte i of the stream is (i / 1024) as u8, buffer of 1024 bytes
            let content: Vec<u8> = (0..6000usize).map(|i| (i / 1024) as u8 + 1).collect();
            let img = {
                let mut c = CompoundFile::create_with_version(Version::V3, Cursor::new(Vec::new())).unwrap();
                { let mut s = c.create_stream("/s").unwrap(); s.write_all(&content).unwrap(); }
                c.into_inner().into_inner()
            };
            // count the reads of an unfaulted pass over the stream
            let total = {
                let st = FStore::default();
                *st.data.borrow_mut() = Cursor::new(img.clone());
                let mut c = cfb::OpenOptions::new().max_buffer_size(1024).open_with(st.clone()).unwrap();
                let mut s = c.open_stream("/s").unwrap();
                st.plan.borrow_mut().armed = true;
                let mut v = Vec::new();
                s.read_to_end(&mut v).unwrap();
                let n = st.plan.borrow().reads;
                n
            };
            for k in 1..=total {
                let st = FStore::default();
                *st.data.borrow_mut() = Cursor::new(img.clone());
                let mut c = cfb::OpenOptions::new().max_buffer_size(1024).open_with(st.clone()).unwrap();
                let mut s = c.open_stream("/s").unwrap();
                { let mut p = st.plan.borrow_mut(); p.armed = true; p.fail_reads = vec![k]; }
                let mut got = Vec::new();
                let mut buf = [0u8; 700];
                let mut errors = 0;
                loop {
                    match s.read(&mut buf) {
                        Ok(0) => break,
                        Ok(n) => got.extend_from_slice(&buf[..n]),
                        Err(_) => { errors += 1; if errors > 3 { break; } }   // retry after the error
                    }
                }
                let n = got.len().min(content.len());
                if got[..n] != content[..n] || got.len() > content.len() {
                    let i = got.iter().zip(content.iter()).position(|(a, b)| a != b).unwrap_or(n);
                    return Some(Err(format!("read fault at underlying read #{k}: after the error the handle returned byte {:#x} at offset {i}, the stream has {:#x} there ({} bytes returned)", got[i.min(got.len() - 1)], content[i.min(content.len() - 1)], got.len())));
                }
            }
            Ok(format!("a single read fault at each of {total} positions never produces wrong bytes"))
        }
        // F1 (C01/C02/C03): creating an object below a stream must be refused
        "c01_create_under_stream_is_refused" => {
            let mut c = CompoundFile::create_with_version(Version::V3, Cursor::new(Vec::new())).unwrap();
            { let mut s = c.create_stream("/foo").unwrap(); s.write_all(b"data").unwrap(); }
            let r1 = c.create_storage("/foo/bar").map_err(|e| e.kind());
            let r2 = c.create_stream("/foo/baz").map(|_| ()).map_err(|e| e.kind());
            if r1.is_ok() || r2.is_ok() {
                let img = c.into_inner().into_inner();
                let reopen = CompoundFile::open_strict(Cursor::new(img)).map(|_| ()).map_err(|e| e.to_string());
                return Some(Err(format!("create_storage(\"/foo/bar\") -> {r1:?}, create_stream(\"/foo/baz\") -> {r2:?} although /foo is a stream; strict reopen: {reopen:?}")));
            }
            Ok(format!("refused: {r1:?}, {r2:?}"))
        }
        // F3 (C09): invalid names are rejected with InvalidInput at creation and nothing changes
        "c09_invalid_names_are_rejected" => {
            let mut out = Vec::new();
            for name in ["a:b", "a!b", "a\\b", &"x".repeat(32), &"\u{10000}".repeat(16)] {
                let mut c = CompoundFile::create_with_version(Version::V3, Cursor::new(Vec::new())).unwrap();
                let before = { c.flush().unwrap(); let v = c.into_inner().into_inner(); v };
                let mut c = CompoundFile::open(Cursor::new(before.clone())).unwrap();
                let path = format!("/{name}");
                let r1 = c.create_storage(&path).map_err(|e| e.kind());
                let r2 = c.create_stream(&path).map(|_| ()).map_err(|e| e.kind());
                let after = c.into_inner().into_inner();
                if r1 != Err(std::io::ErrorKind::InvalidInput) || r2 != Err(std::io::ErrorKind::InvalidInput) || after != before {
                    return Some(Err(format!("name {name:?}: create_storage -> {r1:?}, create_stream -> {r2:?}, file changed: {}", after != before)));
                }
                out.push(format!("{name:?} refused"));
            }
            Ok(out.join("; "))
        }
        // F9 (C15): a create / write 100 bytes / remove cycle must not grow the file from the second repetition on
        "c15_small_stream_cycle_does_not_grow" => {
            let mut out = Vec::new();
            for version in [Version::V3, Version::V4] {
                let store = Shared::default();
                let mut c = CompoundFile::create_with_version(version, store.clone()).unwrap();
                let mut sizes = Vec::new();
                for _ in 0..6 {
                    { let mut s = c.create_stream("/s").unwrap(); s.write_all(&[7u8; 100]).unwrap(); }
                    c.remove_stream("/s").unwrap();
                    c.flush().unwrap();
                    sizes.push(store.0.borrow().get_ref().len());
                }
                if sizes[1..].iter().any(|&x| x != sizes[1]) {
                    return Some(Err(format!("{version:?}: file sizes after each repetition: {sizes:?}")));
                }
                out.push(format!("{version:?}: {sizes:?}"));
            }
            Ok(out.join("; "))
        }
        // F4 (C08): bytes gained by set_len read as zero after shrink-then-grow, and when freed mini sectors
        // or sector tails are reused
        "c08_grow_after_shrink_reads_zero" => {
            for version in [Version::V3, Version::V4] {
                for (len, small, back) in [(60u64, 10u64, 60u64), (9000, 5000, 9000), (100, 70, 128), (5000, 4097, 8000)] {
                    let mut c = CompoundFile::create_with_version(version, Cursor::new(Vec::new())).unwrap();
                    let mut s = c.create_stream("/s").unwrap();
                    s.write_all(&vec![0xAAu8; len as usize]).unwrap();
                    s.set_len(small).unwrap();
                    s.set_len(back).unwrap();
                    s.flush().unwrap();
                    drop(s);
                    let got = read_all(&mut c, "/s").unwrap();
                    if got.len() as u64 != back || got[small as usize..].iter().any(|&b| b != 0) {
                        let bad = got[small as usize..].iter().position(|&b| b != 0).unwrap_or(0) as u64 + small;
                        return Some(Err(format!("{version:?}: write {len} x 0xAA, set_len({small}), set_len({back}): byte {bad} reads {:#x}", got[bad as usize])));
                    }
                }
            }
            Ok("shrink-then-grow exposes only zeros".into())
        }
        "c08_reused_mini_sector_reads_zero" => {
            let mut c = CompoundFile::create_with_version(Version::V3, Cursor::new(Vec::new())).unwrap();
            { let mut s = c.create_stream("/keep").unwrap(); s.write_all(&[1u8; 64]).unwrap(); }
            { let mut s = c.create_stream("/a").unwrap(); s.write_all(&[0xAAu8; 128]).unwrap(); }
            { let mut s = c.create_stream("/last").unwrap(); s.write_all(&[2u8; 64]).unwrap(); }
            c.remove_stream("/a").unwrap();
            { let mut s = c.create_stream("/b").unwrap(); s.set_len(100).unwrap(); }
            let got = read_all(&mut c, "/b").unwrap();
            if got.len() != 100 || got.iter().any(|&b| b != 0) {
                return Some(Err(format!("fresh stream grown to 100 bytes reads {:#x} at byte {}", got.iter().find(|&&b| b != 0).unwrap(), got.iter().position(|&b| b != 0).unwrap())));
            }
            Ok("reused mini sectors read as zero".into())
        }
        // regression net for the zeroing repair: random write / set_len / remove histories on several streams against
        // a byte-vector model in which set_len pads with zeros; sizes straddle the 64, 512 and 4096 boundaries
        "c08_random_resize_vs_model" => {
            let mut seed: u64 = 0xD1B54A32D192ED03;
            let mut next = move || { seed ^= seed << 13; seed ^= seed >> 7; seed ^= seed << 17; seed };
            let sizes = [0u64, 1, 10, 63, 64, 65, 100, 128, 500, 512, 513, 1000, 4000, 4095, 4096, 4097, 5000, 8192, 9000];
            for round in 0..30 {
                let version = if round % 2 == 0 { Version::V3 } else { Version::V4 };
                let mut c = CompoundFile::create_with_version(version, Cursor::new(Vec::new())).unwrap();
                let mut model: std::collections::BTreeMap<String, Vec<u8>> = Default::default();
                for step in 0..120 {
                    let name = format!("s{}", next() % 4);
                    let path = format!("/{name}");
                    match next() % 5 {
                        0 => {
                            if model.remove(&name).is_some() { c.remove_stream(&path).unwrap(); }
                        }
                        1 | 2 => {
                            let n = sizes[(next() % sizes.len() as u64) as usize];
                            if !model.contains_key(&name) { c.create_stream(&path).unwrap(); model.insert(name.clone(), Vec::new()); }
                            let mut s = c.open_stream(&path).unwrap();
                            s.set_len(n).unwrap();
                            model.get_mut(&name).unwrap().resize(n as usize, 0);
                        }
                        _ => {
                            let n = sizes[(next() % sizes.len() as u64) as usize] as usize;
                            let fill = (next() % 255) as u8 + 1;
                            if !model.contains_key(&name) { c.create_stream(&path).unwrap(); model.insert(name.clone(), Vec::new()); }
                            let m = model.get_mut(&name).unwrap();
                            let at = if m.is_empty() { 0 } else { (next() % (m.len() as u64 + 1)) as usize };
                            let mut s = c.open_stream(&path).unwrap();
                            s.seek(SeekFrom::Start(at as u64)).unwrap();
                            s.write_all(&vec![fill; n]).unwrap();
                            if m.len() < at + n { m.resize(at + n, 0); }
                            m[at..at + n].iter_mut().for_each(|b| *b = fill);
                        }
                    }
                    if step % 10 == 9 {
                        if step % 30 == 29 {
                            let img = c.into_inner().into_inner();
                            c = match CompoundFile::open_strict(Cursor::new(img)) {
                                Ok(c) => c,
                                Err(e) => return Some(Err(format!("round {round} step {step}: strict reopen failed: {e}"))),
                            };
                        }
                        for (k, v) in model.iter() {
                            let got = read_all(&mut c, &format!("/{k}")).unwrap();
                            if &got != v {
                                let i = got.iter().zip(v.iter()).position(|(a, b)| a != b).unwrap_or(got.len().min(v.len()));
                                return Some(Err(format!("round {round} step {step}: /{k} differs from the model at byte {i} (lengths {} vs {})", got.len(), v.len())));
                            }
                        }
                    }
                }
            }
            Ok("30 rounds x 120 steps agree with the model".into())
        }
        // C10/C09: create_storage_all on a path with an invalid component is refused with InvalidInput - and must not have created
        // the valid leading components first
        "c10_create_storage_all_invalid_component" => {
            for version in [Version::V3, Version::V4] {
                let store = SharedStore::new();
                let mut c = CompoundFile::create_with_version(version, store.clone()).unwrap();
                c.create_storage("/keep").unwrap();
                c.flush().unwrap();
                let before = store.snapshot();
                let r = c.create_storage_all("/new/deeper/bad:name/x");
                match &r {
                    Err(e) if e.kind() == std::io::ErrorKind::InvalidInput => {}
                    other => return Some(Err(format!("{:?}: expected InvalidInput, got {:?}", version, other.as_ref().map_err(|e| e.to_string())))),
                }
                if c.exists("/new") || c.exists("/new/deeper") {
                    return Some(Err(format!("{:?}: the refused call created /new{}", version, if c.exists("/new/deeper") { " and /new/deeper" } else { "" })));
                }
                c.flush().unwrap();
                if store.snapshot() != before {
                    return Some(Err(format!("{:?}: the refused call changed the file bytes", version)));
                }
            }
            Ok("a path with an invalid component is refused before anything is created".into())
        }
        _ => return None,
    })
}

#[allow(dead_code)]
fn read_all<F: Read + Seek>(c: &mut CompoundFile<F>, path: &str) -> std::io::Result<Vec<u8>> {
    let mut s = c.open_stream(path)?;
    let mut v = Vec::new();
    s.seek(SeekFrom::Start(0))?;
    s.read_to_end(&mut v)?;
    Ok(v)
}

/// backing store whose size can be observed while the compound file is open
#[derive(Clone, Default)]
struct Shared(std::rc::Rc<std::cell::RefCell<Cursor<Vec<u8>>>>);
impl Read for Shared { fn read(&mut self, b: &mut [u8]) -> std::io::Result<usize> { self.0.borrow_mut().read(b) } }
impl Write for Shared {
    fn write(&mut self, b: &[u8]) -> std::io::Result<usize> { self.0.borrow_mut().write(b) }
    fn flush(&mut self) -> std::io::Result<()> { Ok(()) }
}
impl Seek for Shared { fn seek(&mut self, p: SeekFrom) -> std::io::Result<u64> { self.0.borrow_mut().seek(p) } }

/// backing store with an externally controlled fault plan
#[derive(Default)]
pub struct FaultPlan { pub armed: bool, pub writes: usize, pub fail_writes: Vec<usize>, pub reads: usize, pub fail_reads: Vec<usize> }
#[derive(Clone, Default)]
struct FStore { data: std::rc::Rc<std::cell::RefCell<Cursor<Vec<u8>>>>, plan: std::rc::Rc<std::cell::RefCell<FaultPlan>> }
impl Read for FStore {
    fn read(&mut self, b: &mut [u8]) -> std::io::Result<usize> {
        { let mut p = self.plan.borrow_mut(); if p.armed { p.reads += 1; if p.fail_reads.contains(&p.reads) { return Err(std::io::Error::other("injected read fault")); } } }
        self.data.borrow_mut().read(b)
    }
}
impl Write for FStore {
    fn write(&mut self, b: &[u8]) -> std::io::Result<usize> {
        { let mut p = self.plan.borrow_mut(); if p.armed { p.writes += 1; if p.fail_writes.contains(&p.writes) { return Err(std::io::Error::other("injected write fault")); } } }
        self.data.borrow_mut().write(b)
    }
    fn flush(&mut self) -> std::io::Result<()> { Ok(()) }
}
impl Seek for FStore { fn seek(&mut self, p: SeekFrom) -> std::io::Result<u64> { self.data.borrow_mut().seek(p) } }
