use crate::le32_patch;
use cfb::{CompoundFile, Version};
use std::io::{Cursor, Read, Seek, SeekFrom, Write};

type R = Option<Result<String, String>>;

fn fresh(version: Version) -> Vec<u8> {
    let c = CompoundFile::create_with_version(version, Cursor::new(Vec::new())).unwrap();
    c.into_inner().into_inner()
}

pub fn run(name: &str) -> R {
    Some(match name {
        // F5a (C11): root entry's never-validated start sector; mini-stream growth walks it unchecked
        "c11_root_start_sector_out_of_range" => {
            let mut img = fresh(Version::V3);
            // directory sector is sector 1 => file offset 2*512; root entry start sector at +116
            le32_patch(&mut img, 2 * 512 + 116, 1000);
            let mut c = match CompoundFile::open(Cursor::new(img)) {
                Ok(c) => c,
                Err(e) => return Some(Ok(format!("open refused: {e}"))),
            };
            let r = c.create_stream("/s").and_then(|mut s| {
                s.write_all(&[7u8; 10])?;
                s.flush()
            });
            Ok(format!("create+write returned {:?} (no panic)", r.map_err(|e| e.to_string())))
        }
        // F5c (C11): file has more sectors than its FAT covers; open pads the cached FAT beyond what the
        // DIFAT can address, the padded cells go on the free list, the first allocation indexes past the DIFAT
        "c11_fat_padded_beyond_difat" => {
            let mut img = fresh(Version::V3);
            // append 200 zero sectors: 203 sectors but one FAT sector (128 entries)
            img.extend(std::iter::repeat(0u8).take(200 * 512));
            let mut c = match CompoundFile::open(Cursor::new(img)) {
                Ok(c) => c,
                Err(e) => return Some(Ok(format!("open refused: {e}"))),
            };
            let r = c.create_stream("/s").and_then(|mut s| {
                s.write_all(&vec![7u8; 5000])?;
                s.flush()
            });
            Ok(format!("create+write returned {:?} (no panic)", r.map_err(|e| e.to_string())))
        }
        // F6 (C07): removing an entry with two children moves its in-order predecessor into the victim's slot, so a
        // handle on the predecessor ends up on a freed (later reused) slot
        "c07_handle_on_predecessor_survives_removal" => {
            let mut c = CompoundFile::create_with_version(Version::V3, Cursor::new(Vec::new())).unwrap();
            for n in ["m", "c", "x", "a", "d"] {
                let mut s = c.create_stream(format!("/{n}")).unwrap();
                s.write_all(n.as_bytes()).unwrap();
            }
            let mut h = c.open_stream("/d").unwrap();
            c.remove_stream("/m").unwrap();
            { let mut z = c.create_stream("/zz").unwrap(); z.write_all(b"ZZ").unwrap(); }
            h.seek(SeekFrom::End(0)).unwrap();
            h.write_all(b"-via-handle").unwrap();
            h.flush().unwrap();
            drop(h);
            let d = read_all(&mut c, "/d").unwrap();
            let zz = read_all(&mut c, "/zz").unwrap();
            if d == b"d-via-handle" && zz == b"ZZ" {
                Ok("write through the handle on /d landed in /d; /zz untouched".into())
            } else {
                Err(format!("/d = {:?}, /zz = {:?}", String::from_utf8_lossy(&d), String::from_utf8_lossy(&zz)))
            }
        }
        // regression net for the removal repair: random create/remove histories against a sorted-set model,
        // strict reopen after every 16 steps
        "c01_random_create_remove_vs_model" => {
            let mut seed: u64 = 0x9E3779B97F4A7C15;
            let mut next = move || { seed ^= seed << 13; seed ^= seed >> 7; seed ^= seed << 17; seed };
            for round in 0..40 {
                let mut c = CompoundFile::create_with_version(if round % 2 == 0 { Version::V3 } else { Version::V4 }, Cursor::new(Vec::new())).unwrap();
                let mut model: std::collections::BTreeMap<(usize, String), Vec<u8>> = Default::default();
                for step in 0..200 {
                    let k = next() % 40;
                    let name = format!("{}{}", "n".repeat((k % 3) as usize + 1), k);
                    let key = (name.len(), name.to_uppercase());
                    if next() % 3 != 0 {
                        if !model.contains_key(&key) {
                            let data = vec![(k as u8); (next() % 100) as usize];
                            let mut s = c.create_stream(format!("/{name}")).unwrap();
                            s.write_all(&data).unwrap();
                            drop(s);
                            model.insert(key, data);
                        }
                    } else if model.contains_key(&key) {
                        c.remove_stream(format!("/{name}")).unwrap();
                        model.remove(&key);
                    } else if c.remove_stream(format!("/{name}")).is_ok() {
                        return Some(Err(format!("removed a missing stream {name}")));
                    }
                    let listed: Vec<String> = c.read_root_storage().map(|e| e.name().to_uppercase()).collect();
                    let want: Vec<String> = model.keys().map(|k| k.1.clone()).collect();
                    if listed != want { return Some(Err(format!("round {round} step {step}: listing {listed:?} != model {want:?}"))); }
                    if step % 16 == 15 {
                        let bytes = c.into_inner().into_inner();
                        c = match CompoundFile::open_strict(Cursor::new(bytes)) { Ok(c) => c, Err(e) => return Some(Err(format!("strict reopen failed: {e}"))) };
                        for (k, v) in model.iter() {
                            let got = read_all(&mut c, &format!("/{}", k.1)).unwrap();
                            if &got != v { return Some(Err(format!("content of {} differs after reopen", k.1))); }
                        }
                    }
                }
            }
            Ok("40 rounds x 200 steps agree with the model".into())
        }
        _ => return None,
    })
}

#[allow(dead_code)]
fn read_all<F: Read + Seek>(c: &mut CompoundFile<F>, path: &str) -> std::io::Result<Vec<u8>> {
    let mut s = c.open_stream(path)?;
    let mut v = Vec::new();
    s.seek(SeekFrom::Start(0))?;
    s.read_to_end(&mut v)?;
    Ok(v)
}
