// Appended (as `#[cfg(kani)] mod vx_kani`) to a scratch copy of src/lib.rs on every run: harnesses on the REAL
// functions that the Verus side treats as external_body with an assumed contract.
//
// K1..K6 (complete: loop-free over the full value domain): the six little-endian codec methods of
// ReadLeNumber / WriteLeNumber compute exactly the byte layout `le16/le32/le64` that the Verus contracts name
// (byte i of the encoding is bits 8i..8i+7), on a fixed-size in-memory writer/reader.
// K4..K6 also: reading from a source that is one byte short returns Err.
// K7..K9 (BOUNDED, never counted as proved): compare_names on names of at most 2 chars drawn from a small alphabet
// that includes the characters where the orders differ (ASCII letters of both cases, '_', a supplementary-plane
// character): shortlex over UTF-16 units of the upper-cased name.
#[cfg(kani)]
mod vx_kani {
    use super::*;
    use std::io::Cursor;

    #[kani::proof]
    fn k_write_le_u16() {
        let v: u16 = kani::any();
        let mut c = Cursor::new([0u8; 2]);
        c.write_le_u16(v).unwrap();
        let b = c.into_inner();
        assert!(b[0] == (v & 0xff) as u8 && b[1] == (v >> 8) as u8);
    }
    #[kani::proof]
    fn k_write_le_u32() {
        let v: u32 = kani::any();
        let mut c = Cursor::new([0u8; 4]);
        c.write_le_u32(v).unwrap();
        let b = c.into_inner();
        assert!(b[0] == (v & 0xff) as u8 && b[1] == ((v >> 8) & 0xff) as u8);
        assert!(b[2] == ((v >> 16) & 0xff) as u8 && b[3] == ((v >> 24) & 0xff) as u8);
    }
    #[kani::proof]
    fn k_write_le_u64() {
        let v: u64 = kani::any();
        let mut c = Cursor::new([0u8; 8]);
        c.write_le_u64(v).unwrap();
        let b = c.into_inner();
        assert!(b[0] == (v & 0xff) as u8 && b[1] == ((v >> 8) & 0xff) as u8 && b[2] == ((v >> 16) & 0xff) as u8);
        assert!(b[3] == ((v >> 24) & 0xff) as u8 && b[4] == ((v >> 32) & 0xff) as u8 && b[5] == ((v >> 40) & 0xff) as u8);
        assert!(b[6] == ((v >> 48) & 0xff) as u8 && b[7] == ((v >> 56) & 0xff) as u8);
    }
    #[kani::proof]
    fn k_read_le_u16() {
        let b: [u8; 2] = kani::any();
        let mut r: &[u8] = &b;
        let v = r.read_le_u16().unwrap();
        assert!(v == (b[0] as u16) | ((b[1] as u16) << 8));
        assert!(r.len() == 0);
        // a short source is an error, never a made-up value (C12)
        let sb: [u8; 1] = kani::any();
        let mut sr: &[u8] = &sb;
        let res = sr.read_le_u16();
        let failed = res.is_err();
        std::mem::forget(res); // io::Error's drop glue is recursive: CBMC would unwind it without end
        assert!(failed);
    }
    #[kani::proof]
    fn k_read_le_u32() {
        let b: [u8; 4] = kani::any();
        let mut r: &[u8] = &b;
        let v = r.read_le_u32().unwrap();
        assert!(v == (b[0] as u32) | ((b[1] as u32) << 8) | ((b[2] as u32) << 16) | ((b[3] as u32) << 24));
        assert!(r.len() == 0);
        // a short source is an error, never a made-up value (C12)
        let sb: [u8; 3] = kani::any();
        let mut sr: &[u8] = &sb;
        let res = sr.read_le_u32();
        let failed = res.is_err();
        std::mem::forget(res); // io::Error's drop glue is recursive: CBMC would unwind it without end
        assert!(failed);
    }
    #[kani::proof]
    fn k_read_le_u64() {
        let b: [u8; 8] = kani::any();
        let mut r: &[u8] = &b;
        let v = r.read_le_u64().unwrap();
        let lo = (b[0] as u64) | ((b[1] as u64) << 8) | ((b[2] as u64) << 16) | ((b[3] as u64) << 24);
        let hi = (b[4] as u64) | ((b[5] as u64) << 8) | ((b[6] as u64) << 16) | ((b[7] as u64) << 24);
        assert!(v == lo | (hi << 32));
        assert!(r.len() == 0);
        // a short source is an error, never a made-up value (C12)
        let sb: [u8; 7] = kani::any();
        let mut sr: &[u8] = &sb;
        let res = sr.read_le_u64();
        let failed = res.is_err();
        std::mem::forget(res); // io::Error's drop glue is recursive: CBMC would unwind it without end
        assert!(failed);
    }
}

// ---- bounded stand-ins for the name order (R11 is an assumption of the Verus side) --------------------------------
// K7 (BOUNDED: the listed pairs): on ASCII names compare_names is shortlex over the UPPER-cased bytes.
// K8 (BOUNDED: the listed pairs): names of different UTF-16 length are ordered by
// that length, also when they contain supplementary-plane characters (the general path returns before any case mapping).
#[cfg(kani)]
mod vx_kani_names {
    use crate::internal::path::compare_names;
    use std::cmp::Ordering;

    // concrete pairs (a symbolic harness over all 2-byte ASCII names did not finish in 15 minutes here): the ASCII
    // fast path orders by UPPER-cased bytes, so '_' (0x5F) sorts after every letter, and is case-insensitive
    #[kani::proof]
    #[kani::unwind(20)]
    fn k_names_ascii_order() {
        assert!(compare_names("A_c", "ABc") == Ordering::Greater);
        assert!(compare_names("a_", "az") == Ordering::Greater);
        assert!(compare_names("aZ", "a_") == Ordering::Less);
        assert!(compare_names("abc", "ABC") == Ordering::Equal);
        assert!(compare_names("b", "A") == Ordering::Greater);
        assert!(compare_names("B", "a") == Ordering::Greater);
        assert!(compare_names("z", "aa") == Ordering::Less);
        // every ASCII character between 'Z' and 'a' sorts AFTER the letters (upper-casing, not lower-casing, decides)
        assert!(compare_names("a[", "aZ") == Ordering::Greater);
        assert!(compare_names("a^", "ab") == Ordering::Greater);
        assert!(compare_names("a`", "az") == Ordering::Greater);
        assert!(compare_names("a]", "a\\") == Ordering::Greater);
        // digits sort before letters, whatever the case
        assert!(compare_names("a1", "aB") == Ordering::Less);
        assert!(compare_names("A9", "a0") == Ordering::Greater);
    }
    // concrete pairs (constant folding keeps this cheap): different UTF-16 lengths decide, whatever the characters
    #[kani::proof]
    #[kani::unwind(20)]
    fn k_names_len_first() {
        // pairs whose character counts differ too, so that neither order needs the case mapper (a HashMap: out of reach for CBMC)
        assert!(compare_names("\u{10000}\u{10000}", "abc") == Ordering::Greater); // 4 units vs 3 units although 2 chars vs 3
        assert!(compare_names("abc", "\u{10000}\u{10000}") == Ordering::Less);
        assert!(compare_names("abc", "\u{10000}") == Ordering::Greater);         // 3 units vs 2 units
        assert!(compare_names("\u{e9}", "\u{10000}x") == Ordering::Less);        // 1 unit vs 3 units
    }
}

// ---- K9 (thorough tier; complete over its domain: every secs: u64, nanos < 10^9, both directions; ~6 min):
// Timestamp::from_system_time against the property's arithmetic (C17) on the REAL function - this harness does not
// depend on the shape of the function body, so it also decides rewrites that the Verus side can only call undecided.
#[cfg(kani)]
mod vx_kani_time {
    use crate::internal::Timestamp;
    use std::time::{Duration, UNIX_EPOCH};

    #[kani::proof]
    #[kani::unwind(3)]
    fn k_timestamp_from_system_time() {
        let secs: u64 = kani::any();
        let nanos: u32 = kani::any();
        kani::assume(nanos < 1_000_000_000);
        let after: bool = kani::any();
        let d = Duration::new(secs, nanos);
        let st = if after { UNIX_EPOCH.checked_add(d) } else { UNIX_EPOCH.checked_sub(d) };
        if let Some(st) = st {
            let got = Timestamp::from_system_time(st).value();
            // the statement's arithmetic with checked steps (a u128 reference never left bit-blasting in CBMC)
            let ticks = match secs.checked_mul(10_000_000) {
                Some(x) => match x.checked_add((nanos / 100) as u64) { Some(y) => y, None => u64::MAX },
                None => u64::MAX,
            };
            let epoch: u64 = 116444736000000000;
            let want = if after {
                match epoch.checked_add(ticks) { Some(v) => v, None => u64::MAX }
            } else if ticks > epoch { 0 } else { epoch - ticks };
            assert!(got == want);
        }
    }
}

// ---- K9b (BOUNDED: the six listed instants; quick tier): the same conversion on concrete instants on both sides of every
// boundary of the statement (1970, sub-tick fractions rounded toward the epoch, beyond i64 ticks, saturation at both ends).
// It does not depend on the shape of the function body either, and takes seconds where K9 takes minutes.
#[cfg(kani)]
mod vx_kani_time_listed {
    use crate::internal::Timestamp;
    use std::time::{Duration, UNIX_EPOCH};

    #[kani::proof]
    #[kani::unwind(3)]
    fn k_timestamp_listed_instants() {
        let epoch: u64 = 116444736000000000;
        assert!(Timestamp::from_system_time(UNIX_EPOCH).value() == epoch);
        assert!(Timestamp::from_system_time(UNIX_EPOCH + Duration::new(1, 500_000_150)).value() == epoch + 15_000_001);
        assert!(Timestamp::from_system_time(UNIX_EPOCH - Duration::new(1, 50)).value() == epoch - 10_000_000);
        // beyond i64::MAX ticks (about year 40000) but still representable
        assert!(Timestamp::from_system_time(UNIX_EPOCH + Duration::new(1_200_000_000_000, 0)).value() == epoch + 12_000_000_000_000_000_000);
        // saturation at the upper end, and at 1601 at the lower end
        assert!(Timestamp::from_system_time(UNIX_EPOCH + Duration::new(2_000_000_000_000, 0)).value() == u64::MAX);
        assert!(Timestamp::from_system_time(UNIX_EPOCH - Duration::new(20_000_000_000, 0)).value() == 0);
    }
}

// ---- K10 (BOUNDED: the listed paths): path normalisation (C09) on the real name_chain_from_path / path_from_name_chain, which the
// Verus side only knows as the uninterpreted path_chain: "." is dropped, ".." removes the component before it and may not climb
// above the root, a leading "/" restarts at the root, relative and absolute spellings of a path give the same chain, and the
// canonical path of a chain is "/" followed by its names.
#[cfg(kani)]
mod vx_kani_paths {
    use crate::internal::path::{name_chain_from_path, path_from_name_chain};
    use std::path::Path;

    fn chain_is(p: &str, want: &[&str]) -> bool {
        match name_chain_from_path(Path::new(p)) {
            Ok(v) => v.len() == want.len() && v.iter().zip(want.iter()).all(|(a, b)| a == b),
            Err(_) => false,
        }
    }
    fn refused(p: &str) -> bool {
        match name_chain_from_path(Path::new(p)) {
            Ok(_) => false,
            Err(e) => { let k = e.kind() == std::io::ErrorKind::InvalidInput; std::mem::forget(e); k }
        }
    }

    #[kani::proof]
    #[kani::unwind(12)]
    fn k_path_normalisation() {
        assert!(chain_is("/", &[]));
        assert!(chain_is("", &[]));
        assert!(chain_is("/a/b", &["a", "b"]));
        assert!(chain_is("a/b", &["a", "b"]));
        assert!(chain_is("/a/./b", &["a", "b"]));
        assert!(chain_is("/a/../b", &["b"]));
        assert!(chain_is("a/b/..", &["a"]));
        assert!(chain_is("a//b/", &["a", "b"]));
        assert!(refused(".."));
        assert!(refused("/a/../.."));
        assert!(path_from_name_chain(&["a", "b"]) == Path::new("/a/b"));
        assert!(path_from_name_chain(&[]) == Path::new("/"));
    }
}

//@append src/internal/stream_buffer.rs
// ---- K9c (BOUNDED: the listed sizes; quick tier): StreamBuffer::write_bytes at the smallest maximum size (1024): an input larger than
// the whole buffer is accepted up to the buffer's size (a short write, never a refusal), a full buffer that cannot grow refuses,
// and after clear() it accepts again.  Independent of the shape of the function body (a rewritten body with a new loop is rejected
// by the Verus front end and would otherwise end undecided).
#[cfg(kani)]
mod vx_kani_buffer_listed {
    use super::StreamBuffer;

    #[kani::proof]
    #[kani::unwind(3)]
    fn k_stream_buffer_write_listed() {
        let mut b = StreamBuffer::new(1);            // clamped to the 1024-byte minimum
        let data = [7u8; 1025];
        let r = b.write_bytes(&data);
        assert!(r == Some(1024) && b.cursor() == 1024 && b.filled_len() == 1024);
        assert!(b.write_bytes(&data).is_none());
        b.clear();
        assert!(b.write_bytes(&data[..10]) == Some(10) && b.cursor() == 10 && b.filled_len() == 10);
        assert!(b.filled_slice()[9] == 7);
    }
}

