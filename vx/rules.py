"""Global rewrite rules (DESIGN.md 3.2).  Every rule is syntactic, applied to
every extracted function, copies captured sub-expressions verbatim and
preserves the number of newlines of the text it replaces."""
import re

from .extract import strip_map, match_close, ExtractError

ERR_MACROS = {
    'invalid_data': 'InvalidData',
    'malformed': 'InvalidData',
    'invalid_input': 'InvalidInput',
    'not_found': 'NotFound',
    'already_exists': 'AlreadyExists',
}


def r1_error_macros(text):
    """R1: `invalid_data!(...)` etc. => `return Err(vx_err(VxKind::X))`.
    Drops the message text and the evaluation of its (pure) format args."""
    fired = 0
    while True:
        stripped = strip_map(text)
        m = re.search(r'\b(' + '|'.join(ERR_MACROS) + r')!\s*\(', stripped)
        if not m:
            break
        close = match_close(stripped, m.end() - 1, '(', ')')
        nl = text.count('\n', m.start(), close + 1)
        rep = 'return Err(vx_err(VxKind::%s))' % ERR_MACROS[m.group(1)] + '\n' * nl
        text = text[:m.start()] + rep + text[close + 1:]
        fired += 1
    return text, fired


def r13_debug_assert_eq(text):
    """R13: `debug_assert_eq!(a, b)` => `debug_assert!(a == b)` (and _ne => !=): Verus has no
    spec for core::panicking::assert_failed.  Drops the Debug formatting of the operands."""
    fired = 0
    while True:
        stripped = strip_map(text)
        m = re.search(r'\bdebug_assert_(eq|ne)!\s*\(', stripped)
        if not m:
            break
        close = match_close(stripped, m.end() - 1, '(', ')')
        inner_s = stripped[m.end():close]
        inner = text[m.end():close]
        # split at the first top-level comma
        depth = 0
        cut = None
        for i, ch in enumerate(inner_s):
            if ch in '([{':
                depth += 1
            elif ch in ')]}':
                depth -= 1
            elif ch == ',' and depth == 0:
                cut = i
                break
        if cut is None:
            raise ExtractError('unsupported debug_assert_eq form')
        a = inner[:cut]
        rest = inner[cut + 1:]
        # second operand ends at next top-level comma (optional message) or end
        depth = 0
        cut2 = len(rest)
        rs = inner_s[cut + 1:]
        for i, ch in enumerate(rs):
            if ch in '([{':
                depth += 1
            elif ch in ')]}':
                depth -= 1
            elif ch == ',' and depth == 0:
                cut2 = i
                break
        b = rest[:cut2]
        tail_nl = rest[cut2:].count('\n')
        op = '==' if m.group(1) == 'eq' else '!='
        rep = 'debug_assert!((%s) %s (%s)' % (a.rstrip(), op, b.strip()) + '\n' * (b.count('\n') - b.strip().count('\n') + tail_nl) + ')'
        # keep newline count identical
        old_nl = text.count('\n', m.start(), close + 1)
        new_nl = rep.count('\n')
        if new_nl < old_nl:
            rep = rep[:-1] + '\n' * (old_nl - new_nl) + ')'
        text = text[:m.start()] + rep + text[close + 1:]
        fired += 1
    return text, fired


# (name, regex, replacement) -- applied with re.sub on the function text.
# Regexes must not span newlines unless they re-emit them.
SIMPLE_RULES = [
    # R3 ref patterns
    ('R3.for_ref', r'\bfor &(\w+) in ([^\n{]+?) \{', r'for \1 in \2 { let \1 = *\1;'),
    ('R3.iflet_some_ref', r'\bif let Some\(&(\w+)\) =(\s+)([^\n{]+?)(\s+)\{',
     r'if let Some(\1) =\2\3\4{ let \1 = *\1;'),
    ('R3.whilelet_some_ref', r'\bwhile let Some\(&(\w+)\) =(\s+)([^\n{]+?)(\s+)\{',
     r'while let Some(\1) =\2\3\4{ let \1 = *\1;'),
    # R4 enumerate over a Vec field/local
    ('R4.enumerate_ref',
     r'\bfor \((\w+), &(\w+)\) in ([\w.]+)\.iter\(\)\.enumerate\(\) \{',
     r'for \1 in 0..\3.len() { let \2 = \3[\1];'),
    # R4b: anonymous loop counter gets a name so that invariants can mention it
    ('R4b.for_underscore', r'\bfor _ in ', r'for vx_i in '),
    # R6 std idioms without a Verus spec
    ('R6.size_of_u32', r'\bsize_of::<u32>\(\)', r'4usize'),
    ('R6.div_ceil', r'(\b[\w.]+)\.div_ceil\(([^()\n]+)\)', r'vx_div_ceil_u64(\1, \2)'),
]


def apply_global(text):
    fired = {}
    text, n = r1_error_macros(text)
    if n:
        fired['R1.error_macros'] = n
    text, n = r13_debug_assert_eq(text)
    if n:
        fired['R13.debug_assert_eq'] = n
    for name, rx, rep in SIMPLE_RULES:
        text, n = re.subn(rx, rep, text)
        if n:
            fired[name] = n
    return text, fired


def apply_local(text, replaces, where, lost=None, force_drop=None):
    """Function-specific rewrites listed in the contract file
    (`//@replace /regex/ => text`).  Each must fire at least once, otherwise
    the anchor is lost.  With `lost` (a list) given, a lost anchor is recorded there and the rule skipped instead of
    raising (tolerant weave, DESIGN 11.10); `force_drop` names rules to skip on purpose (differential run)."""
    fired = {}
    for rx, rep in replaces:
        want = None
        if isinstance(rx, tuple):
            rx, want = rx
        key = 'replace:' + rx
        if force_drop is not None and key in force_drop:
            continue
        nl_before = text.count('\n')
        text2, n = re.subn(rx, rep, text, flags=re.S)
        if n == 0 or (want is not None and n != want):
            msg = 'lost anchor: replace /%s/ in %s%s' % (rx, where, '' if want is None else ' fired %d times, expected %d' % (n, want))
            if lost is None:
                raise ExtractError(msg)
            lost.append((key, msg, want is not None and n != 0))
            if n == 0:
                continue
        if text2.count('\n') != nl_before:
            # re-balance: only allowed to lose newlines; pad at the end of the
            # replaced region is not known here, so require explicit \n in rep
            raise ExtractError('replace /%s/ in %s changes the line count' % (rx, where))
        text = text2
        fired['local:' + rx] = n
    return text, fired
