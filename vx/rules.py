"""Global rewrite rules (DESIGN.md 3.2).  Every rule is syntactic, applied to
every extracted function, copies captured sub-expressions verbatim and
preserves the number of newlines of the text it replaces."""
import re

from .extract import strip_map, match_close, ExtractError

ERR_MACROS = {
    'invalid_data': 'InvalidData',
    'malformed': 'InvalidData',
    'invalid_input': 'InvalidInput',
    'not_found': 'NotFound',
    'already_exists': 'AlreadyExists',
}


def r1_error_macros(text):
    """R1: `invalid_data!(...)` etc. => `return Err(vx_err(VxKind::X))`.
    Drops the message text and the evaluation of its (pure) format args."""
    fired = 0
    while True:
        stripped = strip_map(text)
        m = re.search(r'\b(' + '|'.join(ERR_MACROS) + r')!\s*\(', stripped)
        if not m:
            break
        close = match_close(stripped, m.end() - 1, '(', ')')
        nl = text.count('\n', m.start(), close + 1)
        rep = 'return Err(vx_err(VxKind::%s))' % ERR_MACROS[m.group(1)] + '\n' * nl
        text = text[:m.start()] + rep + text[close + 1:]
        fired += 1
    return text, fired


# (name, regex, replacement) -- applied with re.sub on the function text.
# Regexes must not span newlines unless they re-emit them.
SIMPLE_RULES = [
    # R3 ref patterns
    ('R3.for_ref', r'\bfor &(\w+) in ([^\n{]+?) \{', r'for \1 in \2 { let \1 = *\1;'),
    ('R3.iflet_some_ref', r'\bif let Some\(&(\w+)\) = ([^\n{]+?) \{',
     r'if let Some(\1) = \2 { let \1 = *\1;'),
    # R4 enumerate over a Vec field/local
    ('R4.enumerate_ref',
     r'\bfor \((\w+), &(\w+)\) in ([\w.]+)\.iter\(\)\.enumerate\(\) \{',
     r'for \1 in 0..\3.len() { let \2 = \3[\1];'),
    # R6 std idioms without a Verus spec
    ('R6.size_of_u32', r'\bsize_of::<u32>\(\)', r'4usize'),
    ('R6.div_ceil', r'(\b[\w.]+)\.div_ceil\(([^()\n]+)\)', r'vx_div_ceil_u64(\1, \2)'),
]


def apply_global(text):
    fired = {}
    text, n = r1_error_macros(text)
    if n:
        fired['R1.error_macros'] = n
    for name, rx, rep in SIMPLE_RULES:
        text, n = re.subn(rx, rep, text)
        if n:
            fired[name] = n
    return text, fired


def apply_local(text, replaces, where):
    """Function-specific rewrites listed in the contract file
    (`//@replace /regex/ => text`).  Each must fire at least once, otherwise
    the anchor is lost (exit 2)."""
    fired = {}
    for rx, rep in replaces:
        nl_before = text.count('\n')
        text2, n = re.subn(rx, rep, text, flags=re.S)
        if n == 0:
            raise ExtractError('lost anchor: replace /%s/ in %s' % (rx, where))
        if text2.count('\n') != nl_before:
            # re-balance: only allowed to lose newlines; pad at the end of the
            # replaced region is not known here, so require explicit \n in rep
            raise ExtractError('replace /%s/ in %s changes the line count' % (rx, where))
        text = text2
        fired['local:' + rx] = n
    return text, fired
