"""Mechanical extraction of item text from /repo/src (DESIGN.md 3.2).

Text-level and item-granular.  The sources are rustfmt-formatted; an item is
located by its header line and its closing brace is found with a
string/char/comment-aware brace matcher.  Every rewrite preserves the number
of newlines of the text it replaces, so "generated line -> source line" is
simply an offset.
"""
import hashlib
import re


class ExtractError(Exception):
    """lost anchor / unsupported construct: exit 2, never an alarm"""


def strip_map(text):
    """Return a same-length string in which the contents of comments,
    string literals and char literals are replaced by spaces (newlines are
    kept), so that structural scans (braces, keywords) are not confused."""
    out = []
    i, n = 0, len(text)
    while i < n:
        c = text[i]
        if text.startswith('//', i):
            j = text.find('\n', i)
            if j < 0:
                j = n
            out.append(' ' * (j - i))
            i = j
        elif text.startswith('/*', i):
            depth, j = 1, i + 2
            while j < n and depth:
                if text.startswith('/*', j):
                    depth += 1
                    j += 2
                elif text.startswith('*/', j):
                    depth -= 1
                    j += 2
                else:
                    j += 1
            out.append(''.join(ch if ch == '\n' else ' ' for ch in text[i:j]))
            i = j
        elif c == '"' or (c == 'r' and re.match(r'r#*"', text[i:i + 8])) or \
                (c == 'b' and text.startswith('b"', i)):
            # string literal (plain, raw, byte)
            m = re.match(r'b?r(#*)"', text[i:i + 10])
            if m:
                hashes = m.group(1)
                start = i + m.end()
                endtok = '"' + hashes
                j = text.find(endtok, start)
                j = n if j < 0 else j + len(endtok)
            else:
                j = i + (2 if c == 'b' else 1)
                while j < n and text[j] != '"':
                    j += 2 if text[j] == '\\' else 1
                j += 1
            out.append('"' + ''.join(ch if ch == '\n' else ' '
                                     for ch in text[i + 1:j - 1]) + '"')
            i = j
        elif c == "'":
            # char literal or lifetime
            m = re.match(r"'(\\.[^']*|[^'\\])'", text[i:i + 12])
            if m:
                out.append("'" + ' ' * (m.end() - 2) + "'")
                i += m.end()
            else:
                out.append(c)
                i += 1
        else:
            out.append(c)
            i += 1
    s = ''.join(out)
    assert len(s) == len(text), (len(s), len(text))
    return s


def match_close(stripped, open_idx, open_ch='{', close_ch='}'):
    depth = 0
    for j in range(open_idx, len(stripped)):
        ch = stripped[j]
        if ch == open_ch:
            depth += 1
        elif ch == close_ch:
            depth -= 1
            if depth == 0:
                return j
    raise ExtractError('unbalanced %s at offset %d' % (open_ch, open_idx))


class Source:
    def __init__(self, path, relname):
        self.path = path
        self.rel = relname
        self.text = open(path, encoding='utf-8').read()
        self.stripped = strip_map(self.text)
        self.line_starts = [0]
        for m in re.finditer('\n', self.text):
            self.line_starts.append(m.end())
        # cut off the test module: nothing below `#[cfg(test)]\nmod tests` is
        # ever extracted
        m = re.search(r'^#\[cfg\(test\)\]\s*\nmod tests', self.stripped, re.M)
        self.limit = m.start() if m else len(self.text)

    def line_of(self, off):
        import bisect
        return bisect.bisect_right(self.line_starts, off)

    # ---- impl blocks
    def impl_blocks(self):
        res = []
        for m in re.finditer(r'^(impl\b[^{;]*)\{', self.stripped[:self.limit], re.M):
            header = ' '.join(self.text[m.start(1):m.end(1)].split())
            close = match_close(self.stripped, m.end() - 1)
            res.append((header, m.end() - 1, close))
        return res

    @staticmethod
    def impl_key(header):
        """'impl<'a, F: Read> Read for Sector<'a, F>' -> ('Read', 'Sector');
        'impl<F> Allocator<F>' -> (None, 'Allocator')"""
        h = re.sub(r'^impl\s*(<[^>]*(<[^>]*>[^>]*)*>)?\s*', '', header)
        h = re.sub(r'\bwhere\b.*$', '', h).strip()
        tr = None
        m = re.match(r'(.+?)\s+for\s+(.+)$', h)
        if m:
            tr = re.sub(r'<.*$', '', m.group(1)).strip()
            tr = tr.split('::')[-1]
            h = m.group(2)
        ty = re.sub(r'<.*$', '', h).strip().split('::')[-1]
        return tr, ty

    def find_fn(self, addr):
        """addr: 'Type::name' | 'Trait for Type::name' | '::name' (free fn)
        | 'trait Name::method' (default method in a trait definition).
        Returns (start_off, end_off_exclusive, first_line, impl_header)."""
        m = re.match(r'^(?:(\w+)@)?(\w*)::(\w+)$', addr)
        if not m:
            raise ExtractError('bad fn address %r' % addr)
        want_tr, want_ty, name = m.group(1), m.group(2), m.group(3)
        fn_re = re.compile(
            r'^[ \t]*(?:pub(?:\([a-z]+\))?\s+)?(?:const\s+)?fn\s+' + re.escape(name) + r'\b',
            re.M)
        hits = []
        if want_ty == '':
            # top-level free function: line starts at column 0
            for fm in fn_re.finditer(self.stripped[:self.limit]):
                line_start = self.stripped.rfind('\n', 0, fm.start()) + 1
                if self.stripped[line_start] in ' \t':
                    continue
                hits.append((fm.start(), ''))
        else:
            for header, o, c in self.impl_blocks():
                tr, ty = self.impl_key(header)
                if ty != want_ty or (want_tr is not None and tr != want_tr):
                    continue
                if want_tr is None and tr is not None and tr not in (
                        'Read', 'Write', 'Seek', 'BufRead', 'Iterator', 'Flusher', 'Default'):
                    continue
                for fm in fn_re.finditer(self.stripped, o, c):
                    # depth must be exactly one inside the impl
                    depth = self.stripped.count('{', o, fm.start()) - \
                        self.stripped.count('}', o, fm.start())
                    if depth == 1:
                        hits.append((fm.start(), header))
        if len(hits) != 1:
            raise ExtractError('lost anchor: fn %s in %s matched %d times'
                               % (addr, self.rel, len(hits)))
        start, header = hits[0]
        # start at line start
        start = self.stripped.rfind('\n', 0, start) + 1
        # include attributes directly above (e.g. #[inline]); skip doc comments
        ob = self.stripped.find('{', start)
        semi = self.stripped.find(';', start)
        if ob < 0 or (0 <= semi < ob):
            raise ExtractError('fn %s has no body' % addr)
        # the body brace: first '{' at paren depth 0 after the fn keyword
        depth = 0
        j = start
        while True:
            ch = self.stripped[j]
            if ch in '([':
                depth += 1
            elif ch in ')]':
                depth -= 1
            elif ch == '{' and depth == 0:
                break
            j += 1
        close = match_close(self.stripped, j)
        end = close + 1
        return start, end, self.line_of(start), header

    def find_item(self, kind, name):
        """struct/enum/const/trait/type item at top level."""
        m = re.search(r'^(?:#\[[^\]]*\]\s*\n)*(?:pub(?:\([a-z]+\))?\s+)?' + kind + r'\s+' +
                      re.escape(name) + r'\b', self.stripped[:self.limit], re.M)
        if not m:
            raise ExtractError('lost anchor: %s %s in %s' % (kind, name, self.rel))
        start = m.start()
        # end: first ';' at bracket depth 0, or the close of the first '{' at depth 0
        depth = 0
        j = m.end()
        end = None
        while j < len(self.stripped):
            ch = self.stripped[j]
            if ch in '([':
                depth += 1
            elif ch in ')]':
                depth -= 1
            elif ch == ';' and depth == 0:
                end = j + 1
                break
            elif ch == '{' and depth == 0:
                end = match_close(self.stripped, j) + 1
                break
            j += 1
        if end is None:
            raise ExtractError('lost anchor: end of %s %s in %s' % (kind, name, self.rel))
        return start, end, self.line_of(start)


def sha(text):
    return hashlib.sha256(text.encode('utf-8')).hexdigest()[:16]
