"""Replay of a failed obligation against the real library (DESIGN 3.7 / 11.6).

Verus gives no counterexample.  For obligations that already failed once on this code base (known_findings.jsonl,
any status) a scenario of the replay crate (/verif/replay, a binary depending on /repo by path) reproduces that
class of failure with concrete inputs; when such an obligation fails again the scenario is run and its output is
the witness.  `bin/check <P> --replay <file>` re-runs the scenarios named in a replay file."""
import json, os, subprocess

VERIF = os.path.dirname(os.path.dirname(os.path.abspath(__file__)))
CRATE = os.path.join(VERIF, 'replay')


def build():
    env = dict(os.environ, CARGO_NET_OFFLINE='true')
    p = subprocess.run(['cargo', 'build', '--offline', '--quiet'], cwd=CRATE, env=env,
                       stdout=subprocess.PIPE, stderr=subprocess.STDOUT, text=True, timeout=1800)
    return p.returncode == 0, p.stdout[-2000:]


def run_scenarios(names):
    """-> list of dict(scenario, rc, output); rc 1 = the violation reproduced on the real code"""
    ok, out = build()
    if not ok:
        return [dict(scenario=n, rc=2, output='replay crate does not build: ' + out) for n in names]
    res = []
    for n in names:
        try:
            p = subprocess.run([os.path.join(CRATE, 'target', 'debug', 'vxreplay'), n], stdout=subprocess.PIPE,
                               stderr=subprocess.STDOUT, text=True, timeout=300)
            res.append(dict(scenario=n, rc=p.returncode, output=p.stdout.strip()[-1500:]))
        except subprocess.TimeoutExpired:
            res.append(dict(scenario=n, rc=1, output='VIOLATED %s: HANG (no result after 300 s)' % n))
    return res


def scenarios_for(records, key):
    """scenario names recorded for an obligation key in known_findings.jsonl"""
    names = []
    for r in records:
        keys = [r.get('obligation')] + list(r.get('also', []))
        if any(k and (key == k or key.startswith(k + '@') or key.split('@')[0] == k) for k in keys):
            for n in str(r.get('replay', '')).split(','):
                n = n.strip()
                if n and n not in names:
                    names.append(n)
    return names


def run(path):
    body = json.load(open(path))
    print('obligation:', body.get('obligation'))
    print('verifier output:\n' + (body.get('verifier_output') or '')[:3000])
    names = [w['scenario'] for w in (body.get('witness') or [])] or body.get('scenarios') or []
    if not names:
        print('no concrete failing input is attached to this obligation (no-failing-input-found)')
        return 1
    worst = 0
    for r in run_scenarios(names):
        print(r['output'])
        worst = max(worst, 1 if r['rc'] == 1 else (2 if r['rc'] == 2 and worst == 0 else worst))
    return worst
