"""Rule R14 (DESIGN 11.16): a change that moves an expression into a NEW single-expression helper function (one that
does not exist in the sources the contracts were written against) would end every check of its callers in exit 2 -
"no method named ..." - because no contract names the helper.  Such a helper is a pure abbreviation, so the extractor
expands it again at its call sites, syntactically:

    fn ids_per_sector(&self) -> usize { self.sectors.sector_len() / size_of::<u32>() }
    ... self.ids_per_sector() ...      =>      ... (self.sectors.sector_len() / size_of::<u32>()) ...

Only when ALL of the following hold (otherwise nothing is rewritten and the run ends undecided as before):
  * the helper's name is defined exactly once in /repo/src, outside test modules, and nowhere in contracts/pinned_src;
  * its body is ONE expression: no `;`, `let`, `return`, `?`, `!` (macro), closure, `loop`/`while`/`for`, `unsafe`;
  * its parameters are a self receiver and/or plain `name: Type` parameters;
  * at the call site the receiver is `self` or a plain field path, and every argument that the body uses more than once is a
    plain path / literal (so nothing is evaluated twice).
What the rule drops: the call itself (stack frame).  The verified text still contains the helper's expression verbatim.
"""
import os
import re

from .extract import strip_map

_BAD = re.compile(r';|\blet\b|\breturn\b|\?|!\s*[\(\[\{]|\|[^|]*\||\bloop\b|\bwhile\b|\bfor\b|\bunsafe\b|\bmatch\b')
_SIMPLE_ARG = re.compile(r'^\s*&?\s*(?:mut\s+)?(?:[A-Za-z_][\w]*(?:(?:\.|::)[\w]+)*|\d[\w.]*)(?:\s+as\s+\w+)?\s*$')


def _fn_names(text):
    return re.findall(r'\bfn\s+([A-Za-z_]\w*)', text)


def _match_paren(st, i):
    """index of the parenthesis closing the one at st[i]"""
    depth = 0
    for j in range(i, len(st)):
        if st[j] in '([{':
            depth += 1
        elif st[j] in ')]}':
            depth -= 1
            if depth == 0:
                return j
    return -1


def _split_args(s, st):
    args, depth, cur = [], 0, 0
    for i, ch in enumerate(st):
        if ch in '([{<' and not (ch == '<' and i > 0 and st[i - 1] == ' '):
            depth += 1
        elif ch in ')]}>' and not (ch == '>' and i > 0 and st[i - 1] in '-='):
            depth -= 1
        elif ch == ',' and depth == 0:
            args.append(s[cur:i])
            cur = i + 1
    last = s[cur:]
    if last.strip():
        args.append(last)
    return args


def helper_table(cur_root, pinned_root):
    """new single-expression helpers: name -> dict(kind, params, body, module)"""
    pinned_names = set()
    for d, _, fs in os.walk(pinned_root):
        for f in fs:
            if f.endswith('.rs'):
                pinned_names.update(_fn_names(strip_map(open(os.path.join(d, f), encoding='utf-8').read())))
    table, seen = {}, {}
    for d, _, fs in sorted(os.walk(cur_root)):
        for f in sorted(fs):
            if not f.endswith('.rs'):
                continue
            text = open(os.path.join(d, f), encoding='utf-8').read()
            st = strip_map(text)
            limit = st.find('#[cfg(test)]')
            limit = len(st) if limit < 0 else limit
            for m in re.finditer(r'\bfn\s+([A-Za-z_]\w*)\s*(?:<[^>]*>)?\s*\(', st):
                name = m.group(1)
                seen[name] = seen.get(name, 0) + 1
                if m.start() >= limit or name in pinned_names:
                    continue
                po = m.end() - 1
                pc = _match_paren(st, po)
                if pc < 0:
                    continue
                bo = st.find('{', pc)
                semi = st.find(';', pc)
                if bo < 0 or (0 <= semi < bo):
                    continue
                if re.search(r'\bwhere\b', st[pc:bo]):
                    continue
                bc = _match_paren(st, bo)
                body_st = st[bo + 1:bc]
                if _BAD.search(body_st) or not body_st.strip():
                    continue
                params_txt = text[po + 1:pc]
                params = [p.strip() for p in _split_args(params_txt, st[po + 1:pc]) if p.strip()]
                has_self = bool(params) and re.match(r'^&?\s*(?:mut\s+)?self$', params[0]) is not None
                names, ok = [], True
                for p in (params[1:] if has_self else params):
                    pm = re.match(r'^(?:mut\s+)?([a-z_]\w*)\s*:\s*[^:].*$', p, re.S)
                    if not pm:
                        ok = False
                        break
                    names.append(pm.group(1))
                if not ok:
                    continue
                # comments blanked, whitespace flattened: the expression on one line
                body = ' '.join(_blank_comments(text[bo + 1:bc], st[bo + 1:bc]).split())
                line_start = st.rfind('\n', 0, m.start()) + 1
                top_level = st[line_start] not in ' \t'
                table[name] = dict(has_self=has_self, params=names, body=body, top_level=top_level,
                                   module=os.path.splitext(f)[0], file=os.path.relpath(os.path.join(d, f), os.path.dirname(cur_root)),
                                   items=set(re.findall(r'^(?:pub(?:\([a-z]+\))?\s+)?(?:const|static|fn)\s+([A-Za-z_]\w*)', st, re.M)))
    return dict((n, h) for n, h in table.items() if seen.get(n) == 1)


def _blank_comments(text, st):
    # strip_map blanks comments AND string/char contents; keep literals, drop comments only
    out = []
    i = 0
    while i < len(text):
        if text.startswith('//', i):
            j = text.find('\n', i)
            j = len(text) if j < 0 else j
            i = j
        elif text.startswith('/*', i):
            j = text.find('*/', i)
            i = len(text) if j < 0 else j + 2
        else:
            out.append(text[i])
            i += 1
    return ''.join(out)


def _subst(body, mapping):
    def rep(m):
        return mapping[m.group(1)]
    if not mapping:
        return body
    rx = re.compile(r'(?<![\w.])(' + '|'.join(re.escape(k) for k in sorted(mapping, key=len, reverse=True)) + r')\b(?!\s*::)')
    return rx.sub(rep, body)


def expand(text, table, this_module=None):
    """-> (new_text, {helper: count}); line count preserved"""
    fired = {}
    if not table:
        return text, fired
    for name, h in table.items():
        guard = 0
        while guard < 50:
            guard += 1
            st = strip_map(text)
            if h['has_self']:
                m = re.search(r'(?<![\w.])((?:self|[a-z_]\w*)(?:\.[a-z_]\w*|\.\d+)*)\s*\.\s*' + re.escape(name) + r'\s*\(', st)
            else:
                m = re.search(r'(?<![\w.])((?:[A-Za-z_]\w*\s*::\s*)*)' + re.escape(name) + r'\s*\(', st)
                if m and re.search(r'\bfn\s+$', st[:m.start()]):
                    m = None
            if not m:
                break
            po = m.end() - 1
            pc = _match_paren(st, po)
            if pc < 0:
                break
            args = [a.strip() for a in _split_args(text[po + 1:pc], st[po + 1:pc])]
            if len(args) != len(h['params']):
                break
            mapping = {}
            ok = True
            for p, a in zip(h['params'], args):
                uses = len(re.findall(r'(?<![\w.])' + re.escape(p) + r'\b', h['body']))
                if uses > 1 and not _SIMPLE_ARG.match(a):
                    ok = False
                mapping[p] = '(' + a + ')'
            if not ok:
                break
            if h['has_self']:
                mapping['self'] = text[m.start(1):m.end(1)]
            body = h['body']
            if h['top_level'] and h['module'] != this_module:
                # items of the helper's own module that the expression names unqualified
                qual = dict((it, h['module'] + '::' + it) for it in h['items'] if it != name)
                body = _subst(body, qual)
            new = '(' + _subst(body, mapping) + ')'
            old = text[m.start():pc + 1]
            new += '\n' * (old.count('\n') - new.count('\n'))
            text = text[:m.start()] + new + text[pc + 1:]
            fired[name] = fired.get(name, 0) + 1
    return text, fired
