"""Per-property check driver (DESIGN.md 3.7-3.10)."""
import concurrent.futures as cf
import hashlib
import json
import os
import re
import subprocess
import sys
import time

from . import weave, runverus
from .extract import ExtractError

VERIF = weave.VERIF
REPO = weave.REPO
EVID = os.path.join(VERIF, 'evidence')
REPLAY_DIR = os.path.join(EVID, 'replay')


def load_units_index():
    return json.load(open(os.path.join(VERIF, 'contracts', 'units.json')))


def eff_tags(f, clause):
    (gl, cid, ctags, kind) = clause
    return ctags if ctags else f.tags


def prop_modules(unit, prop):
    mods = []
    for f in unit.fns:
        if f.external_body:
            continue   # nothing to verify (assumed leaf, or the stub of a split proof)
        if prop in f.tags or prop in f.safety or any(prop in (c[2] or []) for c in f.clauses):
            if f.module not in mods:
                mods.append(f.module)
    for (gl, cid, ctags, m) in unit.tmpl_clauses:
        if ctags and prop in ctags and m not in mods:
            mods.append(m)
    return mods


def unit_obligations(unit, prop, module):
    """Obligation slots of `prop` in one module of the woven crate: explicit
    clauses tagged with it, plus (if the function lists it under safety=) one
    slot for the bundle of automatic safety obligations, one per debug assertion
    and one per loop (termination)."""
    slots = []
    for f in unit.fns:
        if f.external_body or f.module != module:
            continue
        for c in f.clauses:
            if prop in eff_tags(f, c):
                slots.append('%s.%s#%s' % (module, f.addr, c[1] or ('L%d' % c[0])))
        if prop in f.safety:
            slots.append('%s.%s#auto:safety' % (module, f.addr))
            for k in range(f.n_debug_asserts):
                slots.append('%s.%s#auto:debug_assert[%d]' % (module, f.addr, k + 1))
            for k in range(f.n_loops):
                slots.append('%s.%s#auto:termination[loop %d]' % (module, f.addr, k + 1))
    for (gl, cid, ctags, m) in unit.tmpl_clauses:
        if ctags and prop in ctags and m == module:
            slots.append('%s.<lemma>#%s' % (module, cid or ('L%d' % gl)))
    return slots


def failure_tags(unit, rec):
    f = rec['fn']
    kind = rec['kind']
    if rec['clause'] is not None or (rec['tmpl'] and not rec['callee_clause'] and kind in (
            'postcondition', 'invariant_entry', 'invariant_step', 'assertion') and rec['src'] is None):
        if rec['clause_tags']:
            return list(rec['clause_tags'])
        return list(f.tags) if f else []
    if rec['callee_clause']:
        cid, ctags, caddr = rec['callee_clause']
        if ctags:
            return list(ctags)
        return sorted(set((f.safety + f.tags) if f else []))
    if kind in ('postcondition', 'closure_postcondition') and f:
        return sorted(set(f.tags))
    # a failing proof step (assert, or the precondition of a lemma call) inside a woven function: the step serves
    # the function's clauses, so it carries the function's property tags as well as its safety tags
    if f and (kind == 'assertion' or (kind == 'precondition' and 'lemma_' in (rec.get('rendered') or ''))):
        return sorted(set(f.tags + f.safety))
    return list(f.safety) if f else []


def site_text(rec):
    if not rec['src']:
        return None
    rel, ln = rec['src'].rsplit(':', 1)
    try:
        lines = open(os.path.join(REPO, rel), encoding='utf-8').read().split('\n')
        return ' '.join(lines[int(ln) - 1].split())
    except Exception:
        return None


def ob_key(unit, rec):
    oid = runverus.obligation_id(unit, rec)
    return oid.split('@')[0]


def load_known(all_status=True):
    path = os.path.join(VERIF, 'known_findings.jsonl')
    res = []
    if os.path.exists(path):
        for ln in open(path):
            ln = ln.strip()
            if ln and not ln.startswith('#'):
                res.append(json.loads(ln))
    return res


def match_known(known, prop, key, stext):
    for k in known:
        if k.get('status', 'open') != 'open':
            continue   # fixed entries suppress nothing
        if prop not in k.get('properties', [k.get('property')]):
            continue
        if k['obligation'] != key:
            continue
        if k.get('site_text') and stext and k['site_text'] != stext:
            continue
        return k
    return None


def _cache_file(path, module):
    """Memo of a module's verification result, keyed by the full generated text (which is rebuilt from /repo's
    working tree and the contract files on every run): the same text gives the same obligations."""
    import hashlib
    h = hashlib.sha256(open(path, 'rb').read()).hexdigest()[:24]
    d = os.path.join(os.path.dirname(path), 'cache', h)
    os.makedirs(d, exist_ok=True)
    return os.path.join(d, module + '.json')


def run_module(unit, path, module, seed, use_cache=True):
    t0 = time.time()
    cfile = _cache_file(path, module)
    if use_cache and os.environ.get('VX_NOCACHE') != '1' and os.path.exists(cfile):
        try:
            c = json.load(open(cfile))
            res = c['res']
            fails, und, hard = runverus.classify(unit, res, path)
            if c.get('fails_keys') is not None:
                fails = [r for r in fails if ob_key(unit, r) in set(c['fails_keys'])]
            return dict(res=res, fails=fails, undecided=und, hard=hard, unstable=c.get('unstable', []),
                        wall=c.get('wall', 0.0), cached=True)
        except Exception:
            pass
    # functions marked `fnmode` are verified on their own, concurrently with the module run (whose verdict on them is ignored)
    fnmode = [f for f in unit.fns if f.module == module and f.fnmode and not f.external_body]
    with cf.ThreadPoolExecutor(max_workers=1 + len(fnmode)) as ex:
        fut_mod = ex.submit(runverus.run_verus_path, path, 30, 20, None, module)
        fut_fns = [(f, ex.submit(runverus.run_verus_path, path, 30, 20, ['--verify-function', verus_fn_name(f.addr)], module)) for f in fnmode]
        res = fut_mod.result()
        fn_results = [(f, fu.result()) for (f, fu) in fut_fns]
    fails, und, hard = runverus.classify(unit, res, path)
    unstable = []
    for f, rf in fn_results:
        ff, uf, hf = runverus.classify(unit, rf, path)
        vrf = ((rf.get('summary') or {}).get('verification-results') or {})
        if hf or not (ff or uf or (vrf.get('verified') or 0) >= 1):
            continue   # the separate run could not be made: keep the module run's verdict on this function
        fails = [r for r in fails if r.get('addr') != f.addr] + ff
        und = [r for r in und if r.get('addr') != f.addr] + uf
        if not hard:
            res = dict(res, summary=dict(res.get('summary') or {}, **{'fnmode-' + f.addr: vrf}))
    # stability policy (DESIGN 3.4): a function whose proof ran out of resources is re-run ON ITS OWN (fresh solver instance,
    # proof context pruned to what the function uses, 4x the default resource limit, another random seed).  If a re-run proves it,
    # it is proved (the instability is recorded); failures found by a re-run are kept; only if no re-run decides it does it stay
    # undecided.  Undecided items that belong to no woven function (lemmas) fall back to a re-run of the whole module.
    if und and not hard:
        by_fn, other = {}, []
        for u in und:
            fu = u.get('fn')
            if fu is not None:
                by_fn.setdefault(fu.addr, fu)
            else:
                other.append(u)
        if other:
            for attempt, s in enumerate([seed % 1000 + 1, seed % 1000 + 7]):
                res2 = runverus.run_verus_path(path, rlimit=120, module=module, extra=['--smt-option', 'smt.random_seed=%d' % s])
                f2, u2, h2 = runverus.classify(unit, res2, path)
                unstable.append(dict(attempt=attempt + 1, seed=s, undecided=len(u2)))
                if not u2 and not h2:
                    res, fails, und, hard = res2, f2, u2, h2
                    by_fn = {}
                    break
        still = [u for u in und if u.get('fn') is None] if by_fn else list(und)
        for addr, fu in by_fn.items():
            decided = False
            for attempt, s in enumerate([seed % 1000 + 1, seed % 1000 + 7, seed % 1000 + 29]):
                res2 = runverus.run_verus_path(path, rlimit=120, module=module,
                                               extra=['--verify-function', verus_fn_name(addr), '--smt-option', 'smt.random_seed=%d' % s])
                f2, u2, h2 = runverus.classify(unit, res2, path)
                vr2 = ((res2.get('summary') or {}).get('verification-results') or {})
                unstable.append(dict(function=addr, attempt=attempt + 1, seed=s, undecided=len(u2), failures=len(f2)))
                if h2 or u2 or not ((vr2.get('verified') or 0) >= 1 or f2):
                    continue
                decided = True
                fails = [r for r in fails if r.get('addr') != addr] + f2
                break
            if not decided:
                still += [u for u in und if u.get('fn') is not None and u['fn'].addr == addr]
        if by_fn:
            und = still
    # a definite failure must REPRODUCE before it counts: every function with a failing obligation is verified once more on
    # its own (fresh solver instance, 4x resource limit, another random seed).  Obligations that are then proved are proved
    # (a proof is a proof); the instability is recorded.  Failures outside woven functions (lemmas) are kept as they are.
    if fails and not hard:
        by_fn = {}
        for rec in fails:
            f = rec.get('fn')
            if f is not None:
                by_fn.setdefault(f.addr, f)
        confirmed_keys, rechecked = set(), set()
        for addr, f in by_fn.items():
            res2 = runverus.run_verus_path(path, rlimit=120, module=module,
                                           extra=['--verify-function', verus_fn_name(addr), '--smt-option', 'smt.random_seed=%d' % (seed % 1000 + 13)])
            f2, u2, h2 = runverus.classify(unit, res2, path)
            vr2 = ((res2.get('summary') or {}).get('verification-results') or {})
            if h2 or (not f2 and not u2 and not ((vr2.get('verified') or 0) >= 1 and vr2.get('errors') == 0)):
                continue   # the isolated run could not be made (ambiguous name, tool error): keep the first verdict
            rechecked.add(addr)
            for r2 in f2:
                confirmed_keys.add(ob_key(unit, r2))
            unstable.append(dict(recheck=addr, failures_first_run=len([r for r in fails if r.get('addr') == addr]),
                                 failures_isolated_run=len(f2), undecided_isolated_run=len(u2)))
            for r2 in u2:
                und.append(r2)
        kept = []
        for rec in fails:
            if rec.get('addr') in rechecked and ob_key(unit, rec) not in confirmed_keys:
                continue
            kept.append(rec)
        fails = kept
        res = dict(res, diags=[d for d in res['diags']])   # diagnostics stay as reported by the first run
        res['recheck_dropped'] = True
    wall = time.time() - t0
    # what is memoised is the FINAL verdict: the diagnostics of the obligations that remain failed / undecided / rejected
    # after the re-runs (classify() reproduces exactly these records from them)
    res = dict(res, diags=[r['diag'] for r in (fails + und + hard) if r.get('diag') is not None])
    try:
        json.dump(dict(res=res, unstable=unstable, wall=wall, fails_keys=[ob_key(unit, r) for r in fails]), open(cfile, "w"))
    except Exception:
        pass
    return dict(res=res, fails=fails, undecided=und, hard=hard,
                unstable=unstable, wall=wall, cached=False)


def verus_fn_name(addr):
    """the --verify-function pattern for a woven function address (`Type::name`, `::name`, `Trait@Type::name`)"""
    a = addr.split('@')[-1]
    return a[2:] if a.startswith('::') else a


KEYWORDS = set('if while for loop match return let mut ref fn as in else break continue move unsafe where impl dyn Some None Ok Err Self self'.split())


# std methods whose vstd specifications are exact (a call to one of them cannot make an obligation fail for lack of a
# specification), so a changed body may use them although the pinned body did not
EXACT_STD = set('len is_empty push pop is_some is_none unwrap min div_ceil'.split())


def callees(text):
    """names called in a function text (functions, methods, macros, path tails), comments and strings blanked"""
    from .extract import strip_map
    st = strip_map(weave.blank_comments(text))
    names = set(re.findall(r'([A-Za-z_]\w*)\s*!?\s*(?:::\s*<[^<>()]*>\s*)?\(', st))
    return set(n for n in names if n not in KEYWORDS)


def new_callees(f):
    """callee names of the current text of f that do not occur in its pinned text (None: cannot tell)"""
    try:
        from .extract import Source
        cur = weave.get_source(f.src)
        s, e, _, _ = cur.find_fn(f.src_addr or f.addr)
        psrc = Source(os.path.join(weave.PINNED_ROOT, f.src), f.src)
        ps, pe, _, _ = psrc.find_fn(f.src_addr or f.addr)
        ctext = cur.text[s:e]
        try:
            from . import inline
            ctext = inline.expand(weave.blank_comments(ctext), weave.helper_table(), os.path.splitext(os.path.basename(f.src))[0])[0]   # rule R14
        except Exception:
            pass
        return sorted(callees(ctext) - callees(psrc.text[ps:pe]) - EXACT_STD)
    except Exception:
        return None


def differential(degraded):
    """DESIGN 11.10.  For each function whose proof-hook anchors were lost in this run: weave the PINNED text of the
    same function (the sources the contracts were written against) with exactly those hooks left out and verify it.
    True = the hooks were not needed for the proof on the pinned text, so a failure on the current text is
    attributable to the changed code, not to the missing hooks.  False = cannot tell (undecided)."""
    res, notes = {}, {}
    force = {}
    for f in degraded:
        nc = new_callees(f)
        if any(pin for (k, m, pin) in f.lost):
            res[f.addr] = False
            notes[f.addr] = 'a rewrite rule with a pinned number of sites fired a different number of times'
        elif nc is None or nc:
            # the rewritten body calls something the pinned body did not: its specification (or the lack of one) was never
            # exercised by the proof, so a failure cannot be told from a missing specification
            res[f.addr] = False
            notes[f.addr] = 'the changed body calls functions the pinned body does not (%s)' % (', '.join(nc) if nc else 'unknown')
        else:
            force[f.addr] = set(k for (k, m, pin) in f.lost)
    if not force:
        return res, notes
    try:
        punit = weave.build_unit(pinned=True, force_drop=force)
    except ExtractError as e:
        for a in force:
            res[a] = False
            notes[a] = 'pinned sources could not be woven: %s' % e
        return res, notes
    path = runverus.write_unit(punit, '_pinned')

    def one(f):
        r = runverus.run_verus_path(path, rlimit=60, module=f.module, extra=['--verify-function', verus_fn_name(f.addr)])
        fails, und, hard = runverus.classify(punit, r, path)
        vr = ((r.get('summary') or {}).get('verification-results') or {})
        ok = (not fails and not und and not hard and vr.get('errors') == 0 and (vr.get('verified') or 0) >= 1)
        return f.addr, ok, ('pinned text verifies without the lost hooks' if ok else
                            'pinned text does not verify without the lost hooks (%d failures, %d undecided, %d rejected; rc=%s)'
                            % (len(fails), len(und), len(hard), r.get('rc')))
    with cf.ThreadPoolExecutor(max_workers=4) as ex:
        for (a, ok, note) in ex.map(one, [f for f in degraded if f.addr in force]):
            res[a] = ok
            notes[a] = note
    return res, notes


def vacuity_probe(unit, modules):
    """DESIGN 3.6: with `assert(false)` as the first statement of every
    contracted function, every function must FAIL; one that still verifies has
    a contradictory pre-condition."""
    probe_lines = {}
    new_lines, new_origin = [], []
    fn_open = {}
    for f in unit.fns:
        if f.external_body or f.module not in modules:
            continue
        last_clause = max([c[0] for c in f.clauses if c[3] == 'sig'] + [f.gen_start])
        for gl in range(last_clause, f.gen_end + 1):
            t = unit.lines[gl - 1]
            if unit.origin[gl - 1][0] == 's' and t.strip().endswith('{'):
                fn_open[gl] = f
                break
    for idx, (t, o) in enumerate(zip(unit.lines, unit.origin)):
        new_lines.append(t)
        new_origin.append(o)
        f = fn_open.get(idx + 1)
        if f:
            new_lines.append('        assert(false); // vacuity probe')
            new_origin.append(('t', 'probe', 0))
            probe_lines[len(new_lines)] = f
    unit2 = weave.Unit(unit.name)
    unit2.lines, unit2.origin = new_lines, new_origin
    path = runverus.write_unit(unit2, '_probe')
    failed_fns = set()

    def one(m):
        return runverus.run_verus_path(path, rlimit=30, multiple_errors=0, module=m)
    with cf.ThreadPoolExecutor(max_workers=4) as ex:
        for res in ex.map(one, modules):
            for d in res['diags']:
                if d.get('level') != 'error':
                    continue
                for s in runverus.all_spans(d):
                    if s[0] and os.path.basename(s[0]) == os.path.basename(path) and s[1] in probe_lines:
                        failed_fns.add((probe_lines[s[1]].module, probe_lines[s[1]].addr))
    expected = set((f.module, f.addr) for f in probe_lines.values())
    if not failed_fns and expected:
        return dict(probed=len(expected), reachable=0, vacuous=[], error='probe run produced no assertion failure at all (tool problem, not vacuity)')
    vacuous = sorted('%s.%s' % x for x in (expected - failed_fns))
    return dict(probed=len(expected), reachable=len(failed_fns), vacuous=vacuous)


def write_replay(prop, unit, rec, oid, res):
    os.makedirs(REPLAY_DIR, exist_ok=True)
    h = hashlib.sha1(oid.encode()).hexdigest()[:10]
    path = os.path.join(REPLAY_DIR, '%s-%s.json' % (prop, h))
    key = ob_key(unit, rec)
    witness, note = None, 'Verus gives no counterexample; no concrete failing input was found for this obligation.'
    try:
        from . import replay as _replay
        names = _replay.scenarios_for(load_known(all_status=True), key)
        if names:
            runs = _replay.run_scenarios(names)
            hit = [r for r in runs if r['rc'] == 1]
            if hit:
                witness = hit
                note = 'Verus gives no counterexample; the scenario(s) recorded for this obligation reproduce the failure on the real library.'
            else:
                note += ' Scenarios %s were run against the real library and did not fail.' % ', '.join(names)
    except Exception as e:  # replay is best effort
        note += ' (replay not run: %r)' % (e,)
    f = rec.get('fn')
    if f is not None and getattr(f, 'lost', None):
        note += ' Proof hooks of this function no longer matched the source (%s); the pinned text of the function verifies without them, so the failure is attributed to the changed code.' % '; '.join(m for (k, m, pin) in f.lost)[:400]
    body = dict(property=prop, obligation=oid, key=key, kind=rec['kind'],
                function=rec['addr'], source_site=rec['src'], site_text=site_text(rec),
                contract_site=rec['tmpl'], verifier='verus', verifier_cmd=res['cmd'],
                verifier_output=rec['rendered'], witness=witness, note=note)
    json.dump(body, open(path, 'w'), indent=1)
    return path


def check_property(prop, tier='quick', seed=0, kani_runner=None):
    t0 = time.time()
    index = load_units_index()
    pinfo = index['properties'].get(prop)
    if pinfo is None or prop not in json.load(open(os.path.join(VERIF, 'contracts', 'manifest_texts.json')))['claimed']:
        print('property %s has no check (see MANIFEST not_applicable)' % prop, file=sys.stderr)
        return 2
    known = load_known()
    results = {}
    errors = []
    try:
        unit = weave.build_unit()
    except ExtractError as e:
        unit = None
        errors.append('extraction: %s' % e)
    unit_names = prop_modules(unit, prop) if unit else []
    if unit:
        path = runverus.write_unit(unit)
        with cf.ThreadPoolExecutor(max_workers=4) as ex:
            futs = {ex.submit(run_module, unit, path, n, seed): n for n in unit_names}
            for fu in cf.as_completed(futs):
                n = futs[fu]
                try:
                    results[n] = fu.result()
                except Exception as e:  # tool crash
                    errors.append('%s: internal error %r' % (n, e))

    # graceful degradation: if the verifier's front end rejected the generated crate and every rejection lies inside woven function
    # bodies, those bodies are left out (signature and contract stay, as for any callee) and the run is repeated once, so that all
    # other functions - and the properties that do not depend on the rejected ones - still get their verdict
    rejected = {}
    if unit:
        hard_all = [h for n in unit_names for h in ((results.get(n) or {}).get('hard') or [])]
        if hard_all and all(h.get('fn') is not None and not h['fn'].external_body for h in hard_all):
            for h in hard_all:
                rejected.setdefault(h['fn'].addr, (h['fn'], '%s: %s' % (h['src'] or h['tmpl'], h['msg'][:200])))
            try:
                unit2 = weave.build_unit(force_stub=set(rejected))
                path2 = runverus.write_unit(unit2, '_degraded')
                names2 = prop_modules(unit2, prop)
                results2 = {}
                with cf.ThreadPoolExecutor(max_workers=4) as ex:
                    futs = {ex.submit(run_module, unit2, path2, n, seed): n for n in names2}
                    for fu in cf.as_completed(futs):
                        results2[futs[fu]] = fu.result()
                if not any((r.get('hard') or []) for r in results2.values()):
                    unit, path, unit_names, results = unit2, path2, names2, results2
                    for addr, (f0, why) in rejected.items():
                        carried = sorted(set(f0.tags + f0.safety + [t for c in f0.clauses for t in (c[2] or [])]))
                        if prop in carried:
                            errors.append('the body of %s was rejected by the verifier front end (%s): its obligations are undecided' % (addr, why))
                else:
                    rejected = {}
            except Exception as e:
                rejected = {}

    # functions whose anchors were lost and that have failures: decide by the differential run whether those count
    degraded = {}
    if unit:
        for n in unit_names:
            r = results.get(n)
            for rec in (r['fails'] if r else []):
                f = rec.get('fn')
                if f is not None and f.lost:
                    degraded[f.addr] = f
    diff_ok, diff_notes = differential(list(degraded.values())) if degraded else ({}, {})
    lost_report = []
    if unit:
        for f in unit.fns:
            if f.lost:
                lost_report.append(dict(fn='%s.%s' % (f.module, f.addr), lost=[m for (k, m, pin) in f.lost],
                                        differential=diff_notes.get(f.addr, 'not needed: no failing obligation in this function')))

    violations, known_hits, undecided_msgs = [], [], list(errors)
    obligations, failed_slots = [], set()
    fn_list, trusted, unstable_q, solver_ms = [], set(), [], 0
    by_backend = dict(verus=0, kani_complete=0, kani_bounded=0)
    samples = []
    relies_on_open = []
    for n in unit_names:
        r = results.get(n)
        if not r:
            continue
        slots = unit_obligations(unit, prop, n)
        obligations += slots
        by_backend['verus'] += len(slots)
        for f in unit.fns:
            if f.module == n and (prop in f.tags or prop in f.safety or any(prop in (c[2] or []) for c in f.clauses)):
                fn_list.append(dict(fn='%s.%s' % (n, f.addr), src='%s:%d' % (f.src, f.src_line),
                                    src_sha=f.src_hash, verified_text_sha=f.gen_hash,
                                    rules=f.rules, assumed=f.external_body))
        summ = (r['res'].get('summary') or {})
        solver_ms += int(((summ.get('times-ms') or {}).get('smt') or {}).get('total', 0) or 0)
        if r['unstable']:
            unstable_q.append(dict(unit=n, retries=r['unstable']))
        if r['hard']:
            for h in r['hard']:
                undecided_msgs.append('%s: verifier rejected the generated file at %s: %s'
                                      % (n, h['src'] or h['tmpl'], h['msg']))
        vr = (summ.get('verification-results') or {})
        if not r['hard'] and not vr and not r['fails']:
            undecided_msgs.append('%s: no verification result from Verus (rc=%s): %s'
                                  % (n, r['res']['rc'], r['res']['raw_stderr'][-400:]))
        for u in r['undecided']:
            # a function whose proof ran out of resources has NONE of its obligations discharged: every property it carries
            # (clause tags and safety) is undecided
            fu = u.get('fn')
            tags = sorted(set(fu.tags + fu.safety + [t for c in fu.clauses for t in (c[2] or [])])) if fu else failure_tags(unit, u)
            if prop in tags or not tags:
                undecided_msgs.append('%s: undecided (resource limit) %s'
                                      % (n, runverus.obligation_id(unit, u)))
        for rec in r['fails']:
            tags = failure_tags(unit, rec)
            oid = runverus.obligation_id(unit, rec)
            key = ob_key(unit, rec)
            fdeg = rec.get('fn')
            if fdeg is not None and fdeg.lost and not diff_ok.get(fdeg.addr):
                if prop in tags or not tags:
                    undecided_msgs.append('%s: %s fails, but proof hooks of %s were lost (%s) and %s: no verdict'
                                          % (n, oid, fdeg.addr, '; '.join(m for (k, m, pin) in fdeg.lost)[:300],
                                             diff_notes.get(fdeg.addr, 'no differential run')))
                continue
            if prop not in tags:
                kf = match_known(known, None, key, site_text(rec)) if False else None
                relies_on_open.append(oid)
                continue
            slot = key
            if '#auto:' in key and rec['kind'] in ('overflow', 'div_zero', 'precondition', 'bit_shift', 'unreachable'):
                slot = key.split('#')[0] + '#auto:safety'
            failed_slots.add(slot)
            k = match_known(known, prop, key, site_text(rec))
            if k:
                known_hits.append((k, oid))
            else:
                violations.append((unit, rec, oid, r['res']))
        if len(samples) < 6:
            for s in slots[:3]:
                samples.append(dict(obligation=s, backend='verus', result='failed' if s in failed_slots else 'discharged'))

    if unit:
        for t in weave.trusted_scan(unit):
            trusted.add(t)
    # hard errors are the same in every module run: report once
    undecided_msgs = list(dict.fromkeys(undecided_msgs))

    # Kani part (thorough tier, or quick harnesses)
    kani_info = None
    if kani_runner is not None:
        kani_info = kani_runner(prop, tier, seed)
        for h in kani_info['harnesses']:
            obligations.append('kani.' + h['name'])
            if h['bounded']:
                by_backend['kani_bounded'] += 1
            else:
                by_backend['kani_complete'] += 1
            if h['status'] == 'failed':
                failed_slots.add('kani.' + h['name'])
                k = match_known(known, prop, 'kani.' + h['name'], None)
                if k:
                    known_hits.append((k, 'kani.' + h['name']))
                else:
                    violations.append((None, h, 'kani.' + h['name'], None))
            elif h['status'] != 'ok':
                undecided_msgs.append('kani harness %s: %s' % (h['name'], h['status']))
            samples.append(dict(obligation='kani.' + h['name'], backend='kani',
                                result=h['status'], bounded=h['bounded'], bound=h.get('bound')))
        for t in kani_info.get('trusted', []):
            trusted.add(t)

    vac = None
    if tier == 'thorough':
        try:
            vac = vacuity_probe(unit, unit_names)
            if vac.get('error'):
                undecided_msgs.append('vacuity probe: ' + vac['error'])
            if vac['vacuous']:
                undecided_msgs.append('vacuity probe: functions with contradictory '
                                      'pre-conditions: %s' % vac['vacuous'])
        except Exception as e:
            undecided_msgs.append('vacuity probe failed: %r' % (e,))

    n_obl = len(obligations)
    if n_obl == 0:
        undecided_msgs.append('no obligations generated for %s (vacuous check)' % prop)
    n_bounded_failed = 0
    discharged = n_obl - len(failed_slots)

    out_lines = []
    rc = 0
    for (k, oid) in known_hits:
        out_lines.append('KNOWN-FINDING: property=%s %s (%s)' % (prop, k.get('what', k['obligation']), oid))
    seen_paths = set()
    for (unit, rec, oid, res) in violations:
        if unit is None:
            path = rec.get('replay')
            tail = '' if rec.get('witness') else ' no-failing-input-found'
        else:
            path = write_replay(prop, unit, rec, oid, res)
            try:
                tail = '' if json.load(open(path)).get('witness') else ' no-failing-input-found'
            except Exception:
                tail = ' no-failing-input-found'
        if path in seen_paths:
            continue
        seen_paths.add(path)
        out_lines.append('VIOLATION property=%s replay=%s%s' % (prop, path, tail))
        rc = 1
    if undecided_msgs and rc == 0:
        rc = 2

    wall = time.time() - t0
    checker_cmd = 'verus build/cfb.rs --verify-module <m> --error-format=json --output-json --time --multiple-errors 20 --rlimit 30  (m in %s)' % ','.join(unit_names) \
        + ('; cargo kani --harness <h> in a scratch copy of /repo with kani/harness.rs appended to src/lib.rs' if kani_info and kani_info['harnesses'] else '')
    ev = dict(
        property_id=prop, tier=tier, seed=seed, level='proof',
        coverage=dict(
            obligations=n_obl, discharged=discharged,
            checker_cmd=checker_cmd,
            trusted_base=sorted(trusted),
            units=unit_names,
            functions_under_contract=fn_list,
            by_backend=by_backend,
            solver_time_s=round(solver_ms / 1000.0, 2),
            unstable_queries=unstable_q,
            undecided=undecided_msgs,
            failed=sorted(failed_slots),
            known_findings=[dict(obligation=oid, what=k.get('what')) for (k, oid) in known_hits],
            relies_on_failing_obligations_of_other_properties=sorted(set(relies_on_open)),
            vacuity_probe=vac,
            lost_anchors=lost_report,
            bodies_rejected_by_front_end=[dict(fn=a, why=w) for a, (f0, w) in rejected.items()],
            kani=kani_info,
            not_proved=pinfo.get('not_proved', []),
            rule='An obligation is one contract clause carrying an id (//# id) tagged with this property, '
                 'or, for functions whose safety= list names this property, the bundle of Verus\'s automatic '
                 'obligations of that function (overflow, index, unwrap/callee pre-conditions), each debug '
                 'assertion and each loop\'s termination measure. Counts are computed from the woven file of '
                 'this run; an obligation is discharged if Verus reported no error attributed to it.',
            samples=samples,
        ),
        assumptions=pinfo.get('assumptions', []) + index.get('assumptions', []),
        wall_s=round(wall, 2),
        violations=len(seen_paths),
    )
    os.makedirs(EVID, exist_ok=True)
    json.dump(ev, open(os.path.join(EVID, prop + '.json'), 'w'), indent=1)
    for ln in out_lines:
        print(ln)
    for m in undecided_msgs:
        print('UNDECIDED: ' + m, file=sys.stderr)
    print('%s: %d obligations, %d discharged, %d violation(s), %d known finding(s), tier=%s, %.1fs'
          % (prop, n_obl, discharged, len(seen_paths), len(known_hits), tier, wall), file=sys.stderr)
    return rc
