"""Kani side (DESIGN 3.5): harnesses on the REAL crate: the codec leaf methods that the Verus side assumes (loop-free,
complete), the name order on listed pairs (bounded) - both cheap enough for the quick tier - and the timestamp
conversion over its whole domain (thorough tier).  The crate is copied to a scratch directory outside /repo and /verif,
the harness module is appended to src/lib.rs there, `cargo kani` runs offline, the copy is removed.  Results are
memoised under build/cache keyed by the SHA-256 of /repo/src, Cargo.toml and the harness file (the same sources give
the same verdict), so that several properties checked in one session share one Kani run."""
import json, os, re, shutil, subprocess, tempfile, time

ROOT = os.path.dirname(os.path.dirname(os.path.abspath(__file__)))
REPO = os.environ.get('VERIF_REPO', '/repo')

# harness -> (properties, bounded?, bound text, tier)
HARNESSES = {
    'k_write_le_u16': (('C02', 'C03', 'C18'), False, None, 'quick'),
    'k_write_le_u32': (('C02', 'C03', 'C18'), False, None, 'quick'),
    'k_write_le_u64': (('C02', 'C03', 'C17', 'C18'), False, None, 'quick'),
    'k_read_le_u16': (('C04', 'C12', 'C18'), False, None, 'quick'),
    'k_read_le_u32': (('C04', 'C12', 'C18'), False, None, 'quick'),
    'k_read_le_u64': (('C04', 'C12', 'C17', 'C18'), False, None, 'quick'),
    'k_names_ascii_order': (('C01', 'C03', 'C04', 'C09'), True, 'the 13 listed ASCII name pairs (a symbolic harness over all 2-byte names did not finish in 15 min)', 'quick'),
    'k_names_len_first': (('C01', 'C03', 'C04', 'C09'), True, 'the 4 listed name pairs of different UTF-16 length, with supplementary-plane characters', 'quick'),
    'k_path_normalisation': (('C01', 'C09', 'C10'), True, 'the 12 listed paths (., .., //, leading /, climbing above the root)', 'quick'),
    'k_timestamp_from_system_time': (('C17',), False, None, 'thorough'),
    'k_stream_buffer_write_listed': (('C06', 'C18'), True, 'the listed sizes (1025 bytes into an empty 1024-byte buffer that cannot grow, a full buffer, 10 bytes after clear)', 'quick'),
    'k_timestamp_listed_instants': (('C17',), True, 'the six listed instants (1970, sub-tick fractions on both sides, beyond i64 ticks, saturation at both ends)', 'quick'),
}


def _src_key():
    import hashlib
    h = hashlib.sha256()
    for root in [os.path.join(REPO, 'src')]:
        for d, _, fs in sorted(os.walk(root)):
            for f in sorted(fs):
                pth = os.path.join(d, f)
                h.update(os.path.relpath(pth, REPO).encode())
                h.update(open(pth, 'rb').read())
    for pth in [os.path.join(REPO, 'Cargo.toml'), os.path.join(ROOT, 'kani', 'harness.rs')]:
        h.update(open(pth, 'rb').read())
    return h.hexdigest()[:24]


def run_for_property(prop, tier, seed):
    mine = [h for h, (props, _, _, _) in HARNESSES.items() if prop in props]
    names = [h for h in mine if tier == 'thorough' or HARNESSES[h][3] == 'quick']
    info = dict(harnesses=[], trusted=[], cmd=None, wall_s=0.0)
    skipped = [h for h in mine if h not in names]
    if skipped:
        info['note'] = 'Kani harnesses %s run in the thorough tier only' % ', '.join(skipped)
    if not names:
        return info
    t0 = time.time()
    cdir = os.path.join(ROOT, 'build', 'cache', 'kani_' + _src_key())
    cached = {}
    if os.environ.get('VX_NOCACHE') != '1':
        for h in names:
            try:
                c = json.load(open(os.path.join(cdir, h + '.json')))
                if c.get('status') == 'failed':
                    continue   # failures are re-run so that this property's replay file is written by this run
                cached[h] = c
            except Exception:
                pass
    todo = [h for h in names if h not in cached]
    info['cmd'] = 'cargo kani --harness <h>   (in a scratch copy of /repo with kani/harness.rs appended to src/lib.rs)'
    info['trusted'] = ['Kani/CBMC 0.68 itself; std Cursor<[u8; N]> / <&[u8] as Read> as compiled by Kani']
    if not todo:
        info['harnesses'] = [cached[h] for h in names]
        info['wall_s'] = round(time.time() - t0, 1)
        return info
    scratch = tempfile.mkdtemp(prefix='vxkani_')
    try:
        dst = os.path.join(scratch, 'cfb')
        shutil.copytree(REPO, dst, ignore=shutil.ignore_patterns('target', '.git'))
        # harness.rs is appended to src/lib.rs; a section that starts with a line `//@append <path>` goes to the end of that
        # source file instead (for harnesses on items that are private to a module)
        target, parts = 'src/lib.rs', {}
        for ln in open(os.path.join(ROOT, 'kani', 'harness.rs')).read().split('\n'):
            if ln.startswith('//@append '):
                target = ln.split()[1]
                continue
            parts.setdefault(target, []).append(ln)
        for target, lines in parts.items():
            with open(os.path.join(dst, target), 'a') as f:
                f.write('\n' + '\n'.join(lines) + '\n')
        env = dict(os.environ, CARGO_NET_OFFLINE='true')
        for h in todo:
            cmd = ['cargo', 'kani', '--harness', h]
            p = subprocess.run(cmd, cwd=dst, env=env, stdout=subprocess.PIPE, stderr=subprocess.STDOUT, text=True,
                               timeout=1800)
            out = p.stdout
            if 'VERIFICATION:- SUCCESSFUL' in out:
                status = 'ok'
            elif 'VERIFICATION:- FAILED' in out:
                status = 'failed'
            else:
                status = 'error: ' + out[-300:].replace('\n', ' ')
            _, bounded, bound, _ = HARNESSES[h]
            rec = dict(name=h, status=status, bounded=bounded, bound=bound, tail=out[-1500:] if status != 'ok' else '')
            if status == 'failed':
                # the verifier's counterexample, replayed natively on the real code: Kani writes a unit test with the
                # concrete values into the scratch copy, `cargo kani playback` runs it
                try:
                    p2 = subprocess.run(['cargo', 'kani', '-Z', 'concrete-playback', '--concrete-playback=inplace', '--harness', h],
                                        cwd=dst, env=env, stdout=subprocess.PIPE, stderr=subprocess.STDOUT, text=True, timeout=1800)
                    src = open(os.path.join(dst, 'src', 'lib.rs')).read()
                    m = re.search(r'fn (kani_concrete_playback_%s_\d+)\s*\(\s*\)\s*\{(.*?)kani::concrete_playback_run' % re.escape(h), src, re.S)
                    if m:
                        p3 = subprocess.run(['cargo', 'kani', 'playback', '-Z', 'concrete-playback', '--', m.group(1)],
                                            cwd=dst, env=env, stdout=subprocess.PIPE, stderr=subprocess.STDOUT, text=True, timeout=1800)
                        reproduced = 'test result: FAILED' in p3.stdout
                        rec['witness'] = dict(concrete_values=' '.join(m.group(2).split())[:1500], playback_test=m.group(1),
                                              replayed_on_real_code=reproduced,
                                              playback_output=p3.stdout[-1200:])
                        if not reproduced:
                            rec['witness'] = None
                except Exception as e:
                    rec['witness_error'] = repr(e)
                rdir = os.path.join(ROOT, 'evidence', 'replay')
                os.makedirs(rdir, exist_ok=True)
                rpath = os.path.join(rdir, '%s-kani-%s.json' % (prop, h))
                json.dump(dict(property=prop, obligation='kani.' + h, verifier='kani/cbmc', verifier_cmd=' '.join(cmd), bounded=bounded, bound=bound,
                               verifier_output=out[-4000:], witness=rec.get('witness'),
                               note=('Kani counterexample replayed natively on the real crate (cargo kani playback): the harness assertion fails with the concrete values.'
                                     if rec.get('witness') else 'Kani reports the harness FAILED; no concrete playback could be produced.')),
                          open(rpath, 'w'), indent=1)
                rec['replay'] = rpath
            cached[h] = rec
            if status in ('ok', 'failed'):
                try:
                    os.makedirs(cdir, exist_ok=True)
                    json.dump(rec, open(os.path.join(cdir, h + '.json'), 'w'))
                except Exception:
                    pass
        info['harnesses'] = [cached[h] for h in names if h in cached]
    finally:
        shutil.rmtree(scratch, ignore_errors=True)
    info['wall_s'] = round(time.time() - t0, 1)
    return info
