"""Kani side (DESIGN 3.5): loop-free harnesses on the real codec leaf methods that the Verus side assumes.
Thorough tier only (quick tier reports them as not run).  The crate is copied to a scratch directory outside /repo
and /verif, the harness module is appended to src/lib.rs there, `cargo kani` runs offline, the copy is removed."""
import json, os, re, shutil, subprocess, tempfile, time

ROOT = os.path.dirname(os.path.dirname(os.path.abspath(__file__)))
REPO = os.environ.get('VERIF_REPO', '/repo')

# harness -> (properties, bounded?, bound text)
HARNESSES = {
    'k_write_le_u16': (('C02', 'C03', 'C18'), False, None),
    'k_write_le_u32': (('C02', 'C03', 'C18'), False, None),
    'k_write_le_u64': (('C02', 'C03', 'C17', 'C18'), False, None),
    'k_read_le_u16': (('C04', 'C12', 'C18'), False, None),
    'k_read_le_u32': (('C04', 'C12', 'C18'), False, None),
    'k_read_le_u64': (('C04', 'C12', 'C17', 'C18'), False, None),
    'k_names_ascii_order': (('C03', 'C04', 'C09'), True, 'the 7 listed ASCII name pairs (a symbolic harness over all 2-byte names did not finish in 15 min)'),
    'k_names_len_first': (('C03', 'C04', 'C09'), True, 'the 4 listed name pairs of different UTF-16 length, with supplementary-plane characters'),
}


def run_for_property(prop, tier, seed):
    names = [h for h, (props, _, _) in HARNESSES.items() if prop in props]
    info = dict(harnesses=[], trusted=[], cmd=None, wall_s=0.0)
    if not names:
        return info
    if tier != 'thorough':
        info['note'] = 'Kani harnesses %s run in the thorough tier only' % ', '.join(names)
        return info
    t0 = time.time()
    scratch = tempfile.mkdtemp(prefix='vxkani_')
    try:
        dst = os.path.join(scratch, 'cfb')
        shutil.copytree(REPO, dst, ignore=shutil.ignore_patterns('target', '.git'))
        with open(os.path.join(dst, 'src', 'lib.rs'), 'a') as f:
            f.write('\n' + open(os.path.join(ROOT, 'kani', 'harness.rs')).read())
        env = dict(os.environ, CARGO_NET_OFFLINE='true')
        for h in names:
            cmd = ['cargo', 'kani', '--harness', h]
            p = subprocess.run(cmd, cwd=dst, env=env, stdout=subprocess.PIPE, stderr=subprocess.STDOUT, text=True,
                               timeout=1800)
            out = p.stdout
            if 'VERIFICATION:- SUCCESSFUL' in out:
                status = 'ok'
            elif 'VERIFICATION:- FAILED' in out:
                status = 'failed'
            else:
                status = 'error: ' + out[-300:].replace('\n', ' ')
            _, bounded, bound = HARNESSES[h]
            info['harnesses'].append(dict(name=h, status=status, bounded=bounded, bound=bound,
                                          tail=out[-1500:] if status != 'ok' else ''))
        info['cmd'] = 'cargo kani --harness <h>   (in a scratch copy of /repo with kani/harness.rs appended to src/lib.rs)'
        info['trusted'] = ['Kani/CBMC 0.68 itself; std Cursor<[u8; N]> / <&[u8] as Read> as compiled by Kani']
    finally:
        shutil.rmtree(scratch, ignore_errors=True)
    info['wall_s'] = round(time.time() - t0, 1)
    return info
