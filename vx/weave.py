"""Weave: contract templates (contracts/*.vc) + real function text -> one
Verus file per unit, with a line map back to repository / contract
coordinates (DESIGN.md 3.3)."""
import os
import re

from .extract import Source, ExtractError, strip_map, match_close, sha
from . import rules
from . import inline

VERIF = os.path.dirname(os.path.dirname(os.path.abspath(__file__)))
REPO = os.environ.get('VERIF_REPO', '/repo')

CLAUSE_RE = re.compile(r'//#\s*([\w.\-]+)?\s*(?:\[([^\]]*)\])?')


class FnRec:
    def __init__(self):
        self.addr = None
        self.src = None
        self.tags = []
        self.safety = []
        self.gen_start = 0
        self.gen_end = 0
        self.src_line = 0
        self.src_hash = None
        self.gen_hash = None
        self.rules = {}
        self.clauses = []      # (gen_line, id, tags, kind)
        self.n_loops = 0
        self.n_debug_asserts = 0
        self.external_body = False
        self.module = None
        self.lost = []          # anchors of this function that no longer match (tolerant weave): (key, message, pinned)
        self.src_addr = None    # address of the function in the source file (addr carries a `__part` suffix for a split proof)
        self.fnmode = False     # verified on its own (--verify-function) in parallel with the rest of its module
        self.body_rejected = False
        self.part = None


class Unit:
    def __init__(self, name):
        self.name = name
        self.lines = []        # generated text lines
        self.origin = []       # per line: ('t', file, line) | ('s', rel, line)
        self.fns = []
        self.tmpl_clauses = []  # clauses outside //@fn blocks (gen_line,id,tags)
        self.includes = []
        self.cur_module = None
        self.prologue = None   # (text, tmpl_rel, line) inserted as first statement of every woven fn body
        self.modules = []
        self.deferred = {}     # parent module -> blocks (lines, origin, fns) of split-proof part modules, emitted after the parent closes

    def emit(self, text, origin):
        self.lines.append(text)
        self.origin.append(origin)

    def text(self):
        return '\n'.join(self.lines) + '\n'


_sources = {}
# where function text is taken from: /repo's working tree, or (differential run, DESIGN 11.10) the snapshot of the
# sources the contracts were written against (contracts/pinned_src)
SOURCE_ROOT = [REPO]
PINNED_ROOT = os.path.join(VERIF, 'contracts', 'pinned_src')
# tolerant weave: a lost proof-hook anchor or rewrite rule is recorded on the function instead of ending the run
TOLERANT = [True]
# differential run: {fn addr: set of directive keys to leave out on purpose}
FORCE_DROP = [{}]
# functions woven WITHOUT their body (signature + contract only) because the verifier's front end rejected the body in a first
# pass (a construct without specification, a proof hook that no longer fits): the rest of the crate still gets a verdict
FORCE_STUB = [set()]


_helper_tab = {}


def helper_table():
    root = SOURCE_ROOT[0]
    if root not in _helper_tab:
        try:
            _helper_tab[root] = inline.helper_table(os.path.join(root, 'src'), os.path.join(PINNED_ROOT, 'src'))
        except Exception:
            _helper_tab[root] = {}
    return _helper_tab[root]


def get_source(rel):
    key = (SOURCE_ROOT[0], rel)
    if key not in _sources:
        _sources[key] = Source(os.path.join(SOURCE_ROOT[0], rel), rel)
    return _sources[key]


def reset_sources():
    _sources.clear()
    _helper_tab.clear()


def parse_kv(words):
    kv = {}
    flags = set()
    for w in words:
        if '=' in w:
            k, v = w.split('=', 1)
            kv[k] = [x for x in v.split(',') if x]
        else:
            flags.add(w)
    return kv, flags


def parse_regex_arg(rest, what):
    m = re.match(r'\s*/(.*)/\s*$', rest)
    if not m:
        raise ExtractError('bad %s directive: %r' % (what, rest))
    return m.group(1)


def split_signature(fn_text):
    """Return (sig_without_brace, body_from_brace, ret_span) where the body
    brace is the first '{' at paren depth 0."""
    st = strip_map(fn_text)
    depth = 0
    j = 0
    while j < len(st):
        ch = st[j]
        if ch in '([':
            depth += 1
        elif ch in ')]':
            depth -= 1
        elif ch == '{' and depth == 0:
            break
        j += 1
    return fn_text[:j], fn_text[j:], st[:j]


def name_return(sig, sig_stripped, retname):
    """`-> T` => `-> (r: T)`; returns new sig and the position where clauses
    go (end of sig).  A where clause stays after the return type."""
    depth = 0
    arrow = -1
    for i, ch in enumerate(sig_stripped):
        if ch in '([<':
            # '<' only counts in generics; '->' contains '>' so handle below
            if ch != '<':
                depth += 1
        elif ch in ')]':
            depth -= 1
        if depth == 0 and sig_stripped.startswith('->', i):
            arrow = i
            break
    if arrow < 0:
        return sig
    wm = re.search(r'\bwhere\b', sig_stripped[arrow:])
    end = arrow + wm.start() if wm else len(sig)
    ret = sig[arrow + 2:end]
    ret_core = ret.strip()
    lead = ret[:len(ret) - len(ret.lstrip())]
    trail = ret[len(ret.rstrip()):]
    return sig[:arrow] + '->' + lead + '(%s: %s)' % (retname, ret_core) + trail + sig[end:]


def find_loops(body_stripped):
    """Offsets of loop keywords (while/for/loop) in source order together
    with the offset of the '{' that opens each loop body."""
    res = []
    for m in re.finditer(r'\b(while|for|loop)\b', body_stripped):
        kw = m.group(1)
        # `for` in `impl X for Y` / HRTB cannot occur inside fn bodies here
        depth = 0
        j = m.end()
        while j < len(body_stripped):
            ch = body_stripped[j]
            if ch in '([':
                depth += 1
            elif ch in ')]':
                depth -= 1
            elif ch == '{' and depth == 0:
                break
            j += 1
        res.append((m.start(), j, kw))
    return res


def blank_comments(text):
    """The text of `//` and `/* */` comments is dropped (replaced by spaces of the same length, the comment markers are
    kept): anchors and rewrite rules must never match commented-out code, and comments carry nothing to verify."""
    out = []
    i, n = 0, len(text)
    while i < n:
        c = text[i]
        if text.startswith('//', i):
            j = text.find('\n', i)
            j = n if j < 0 else j
            out.append('//' + ' ' * (j - i - 2))
            i = j
        elif text.startswith('/*', i):
            depth, j = 1, i + 2
            while j < n and depth:
                if text.startswith('/*', j):
                    depth += 1; j += 2
                elif text.startswith('*/', j):
                    depth -= 1; j += 2
                else:
                    j += 1
            body = text[i:j]
            inner = ''.join(ch if ch == '\n' else ' ' for ch in body[2:-2])
            out.append('/*' + inner + '*/' if body.endswith('*/') and len(body) >= 4 else body)
            i = j
        elif c == '"' or (c in 'rb' and re.match(r'b?r?#*"', text[i:i + 8]) and (i == 0 or not (text[i - 1].isalnum() or text[i - 1] == '_'))):
            m = re.match(r'b?r(#*)"', text[i:i + 10])
            if m:
                endtok = '"' + m.group(1)
                start = i + m.end()
                j = text.find(endtok, start)
                j = n if j < 0 else j + len(endtok)
            else:
                j = i + (2 if c == 'b' else 1)
                while j < n and text[j] != '"':
                    j += 2 if text[j] == '\\' else 1
                j = min(n, j + 1)
            out.append(text[i:j])
            i = j
        elif c == "'":
            m = re.match(r"'(\\.[^']*|[^'\\])'", text[i:i + 12])
            if m:
                out.append(m.group(0)); i += m.end()
            else:
                out.append(c); i += 1
        else:
            out.append(c)
            i += 1
    return ''.join(out)


def weave_fn(unit, tmpl_rel, blk):
    """blk: dict(addr, src, kv, flags, sections[(kind,arg,lines[(text,lineno)])], line)"""
    src = get_source(blk['src'])
    start, end, first_line, header = src.find_fn(blk['addr'])
    orig = blank_comments(src.text[start:end])
    rec = FnRec()
    rec.src_hash = sha(orig)
    # R14: a NEW single-expression helper (absent from the sources the contracts were written against) is expanded at its call
    # sites (vx/inline.py); no-op on the pinned text and on any tree that adds no such helper
    inl_fired = {}
    if SOURCE_ROOT[0] != PINNED_ROOT:
        tab = helper_table()
        if tab:
            orig, inl_fired = inline.expand(orig, tab, os.path.splitext(os.path.basename(blk['src']))[0])
    part = blk.get('part')
    rec.addr = blk['addr'] + ('__' + part if part else '')
    rec.src_addr = blk['addr']
    rec.part = part
    rec.fnmode = 'fnmode' in blk['flags'] and not blk.get('stub')
    rec.src = blk['src']
    rec.tags = blk['kv'].get('tags', [])
    rec.safety = blk['kv'].get('safety', [])
    rec.src_line = first_line
    rec.impl_header = header
    rec.module = unit.cur_module

    replaces = [(a, b) for (k, a, b) in blk['replaces']]
    text, fired = rules.apply_global(orig)
    lost = [] if TOLERANT[0] else None
    force_drop = FORCE_DROP[0].get(rec.addr)
    text, fired2 = rules.apply_local(text, replaces, rec.addr, lost, force_drop)
    fired.update(fired2)
    for hn, cnt in inl_fired.items():
        fired['R14.inline_new_helper:' + hn] = cnt

    def lose(key, msg, pinned=False):
        if lost is None:
            raise ExtractError(msg)
        lost.append((key, msg, pinned))
    rec.rules = fired
    rec.gen_hash = sha(text)
    if text.count('\n') != orig.count('\n'):
        raise ExtractError('internal: line count changed in %s' % blk['addr'])

    sig, body, sig_st = split_signature(text)
    retname = blk['kv'].get('ret', ['r'])[0]
    sig = name_return(sig, strip_map(sig), retname)
    if part:
        # split proof (DESIGN 11.16): this copy of the real text proves one group of the postconditions under the name `<fn>__<part>`
        fname = blk['addr'].split('::')[-1]
        sig, nsub = re.subn(r'\bfn\s+' + re.escape(fname) + r'\b', 'fn ' + fname + '__' + part, sig, count=1)
        if nsub != 1:
            raise ExtractError('internal: cannot rename %s for part %s' % (blk['addr'], part))
    # visibility (R2)
    if 'trait' not in blk['flags']:
        sig = re.sub(r'^(\s*)(?:pub(?:\([a-z]+\))?\s+)?((?:const\s+)?fn\b)', r'\1pub \2', sig, count=1)
    else:
        sig = re.sub(r'^(\s*)(?:pub(?:\([a-z]+\))?\s+)?((?:const\s+)?fn\b)', r'\1\2', sig, count=1)
    if 'proof' in blk['flags']:
        pass

    orig_lines = orig.split('\n')
    sig_nl = sig.count('\n')

    # --- emit signature
    sig_lines = sig.rstrip().split('\n')
    rec.gen_start = len(unit.lines) + 1
    if rec.addr in FORCE_STUB[0] and not blk.get('stub'):
        unit.emit('#[verifier::external_body] // vx:body-rejected (graceful degradation: this function is undecided in this run)', ('t', tmpl_rel, blk['line']))
    for attr in blk['attrs']:
        if rec.addr in FORCE_STUB[0] and 'rlimit' in attr[0] or (rec.addr in FORCE_STUB[0] and 'spinoff' in attr[0]):
            continue
        unit.emit(attr[0], ('t', tmpl_rel, attr[1]))
    for k, ln in enumerate(sig_lines):
        unit.emit(ln, ('s', src.rel, first_line + k))

    def emit_contract(lines, kind):
        for (t, lno) in lines:
            unit.emit(t, ('t', tmpl_rel, lno))
            cm = CLAUSE_RE.search(t)
            if cm and '//#' in t:
                cid = cm.group(1)
                ctags = [x for x in (cm.group(2) or '').replace(',', ' ').split() if x]
                rec.clauses.append((len(unit.lines), cid, ctags or None, kind))

    for (kind, arg, lines) in blk['sections']:
        if kind == 'sig':
            emit_contract(lines, 'sig')

    if 'external_body' in blk['flags']:
        rec.external_body = True
    if rec.addr in FORCE_STUB[0] and not blk.get('stub'):
        # graceful degradation (DESIGN 11.16): the body of this function was rejected by the verifier's front end; it is left
        # out so that every OTHER function still gets a verdict.  Its own obligations are undecided (never an alarm).
        unit.emit('    { unimplemented!() } // body left out: rejected by the front end in the first pass', ('t', tmpl_rel, blk['line']))
        rec.external_body = True
        rec.body_rejected = True
        rec.rules = fired
        rec.gen_end = len(unit.lines)
        unit.fns.append(rec)
        return
    if blk.get('stub'):
        # split proof: the function other modules call.  Its contract is the common precondition and the UNION of the
        # postcondition groups, each of which is proved on the real text by one `<fn>__<part>` copy.
        unit.emit('    { unimplemented!() }', ('t', tmpl_rel, blk['line']))
        rec.external_body = True
        rec.rules = fired
        rec.gen_end = len(unit.lines)
        unit.fns.append(rec)
        return

    # --- body with insertions
    body_st = strip_map(body)
    loops = find_loops(body_st)
    rec.n_loops = len(loops)
    rec.n_debug_asserts = len(re.findall(r'\bdebug_assert(_eq|_ne)?!', body_st))
    inserts = {}   # char offset in body -> list of (lines, kind)  (inserted before that offset)
    want_loops = 0
    # a changed number of loops makes every loop contract of the function ambiguous: all are left out.  The expected
    # number is what the contract says (loops=N), else the number of loops of the same function in the pinned sources.
    loop_secs = [int(arg) for (kind, arg, lines) in blk['sections'] if kind in ('loop', 'loopend')]
    drop_loops = False
    expected = int(blk['kv']['loops'][0]) if blk['kv'].get('loops') else None
    if expected is None and loop_secs and SOURCE_ROOT[0] != PINNED_ROOT and os.path.isdir(PINNED_ROOT):
        try:
            psrc = Source(os.path.join(PINNED_ROOT, blk['src']), blk['src'])
            ps, pe, _, _ = psrc.find_fn(blk['addr'])
            ptext = rules.apply_global(blank_comments(psrc.text[ps:pe]))[0]
            expected = len(find_loops(strip_map(split_signature(ptext)[1])))
        except Exception:
            expected = None
    if (loop_secs and max(loop_secs) > len(loops)) or (expected is not None and expected != len(loops)):
        lose('loops', 'lost anchor: loop contracts of %s (function has %d loops, contract written for %s)' % (blk['addr'], len(loops), expected))
        drop_loops = True
    if force_drop is not None and 'loops' in force_drop:
        drop_loops = True
    for (kind, arg, lines) in blk['sections']:
        if kind in ('loop', 'loopend') and drop_loops:
            continue
        if kind in ('before', 'after', 'beforeeach', 'aftereach') and force_drop is not None and (kind + ':' + arg) in force_drop:
            continue
        if kind == 'loop':
            n = int(arg)
            want_loops = max(want_loops, n)
            if n < 1 or n > len(loops):
                raise ExtractError('lost anchor: loop %d of %s (function has %d loops)'
                                   % (n, blk['addr'], len(loops)))
            inserts.setdefault(loops[n - 1][1], []).append((lines, 'loop%d' % n))
        elif kind == 'loopend':
            n = int(arg)
            if n < 1 or n > len(loops):
                raise ExtractError('lost anchor: loopend %d of %s (function has %d loops)'
                                   % (n, blk['addr'], len(loops)))
            close = match_close(body_st, loops[n - 1][1])
            off = body.rfind('\n', 0, close) + 1
            inserts.setdefault(off, []).append((lines, 'loopend%d' % n))
        elif kind in ('before', 'after', 'beforeeach', 'aftereach'):
            rx = re.compile(arg)
            body_first_line = sig_nl  # index into orig_lines of the body's first line
            # match on original source lines of the body
            hits = [i for i in range(body_first_line, len(orig_lines)) if rx.search(orig_lines[i])]
            if (len(hits) != 1 and not kind.endswith('each')) or len(hits) == 0:
                lose(kind + ':' + arg, 'lost anchor: %s /%s/ in %s matched %d lines' % (kind, arg, blk['addr'], len(hits)))
                continue
            body_lines = body.split('\n')
            for h in hits:
                li = h - body_first_line   # line index within body text
                off = sum(len(x) + 1 for x in body_lines[:li + (1 if kind.startswith('after') else 0)])
                inserts.setdefault(off, []).append((lines, kind))
    if unit.prologue and 'external_body' not in blk['flags']:
        pt, prel, pln = unit.prologue
        inserts.setdefault(1, []).insert(0, ([('        ' + pt, pln)], 'prologue'))
    rec.lost = lost or []

    # emit body, tracking source lines
    cur_line = first_line + sig_nl
    pos = 0
    buf = ''
    offs = sorted(inserts)

    def feed(seg):
        nonlocal cur_line, buf
        parts = seg.split('\n')
        for k, p in enumerate(parts):
            buf += p
            if k < len(parts) - 1:
                unit.emit(buf, ('s', src.rel, cur_line))
                buf = ''
                cur_line += 1

    def cut():
        nonlocal buf
        if buf.strip():
            unit.emit(buf, ('s', src.rel, cur_line))
        buf = ''

    for off in offs:
        feed(body[pos:off])
        pos = off
        cut()
        # at one position, what follows the previous line comes before what precedes the next line
        for (lines, kind) in sorted(inserts[off], key=lambda x: 0 if x[1].startswith('after') else 1):
            emit_contract(lines, kind)
    feed(body[pos:])
    cut()
    rec.gen_end = len(unit.lines)
    unit.fns.append(rec)


PART_MARK = re.compile(r'@([A-Za-z0-9_]+(?:,[A-Za-z0-9_]+)*)\s*$')


def weave_split(unit, tmpl_rel, blk):
    """Split proof (DESIGN 11.16).  `//@fn ... parts=a,b,c` (placed at module level, outside any impl): the function's real
    text is woven once per part as `<fn>__<part>` in a sibling module `<parent>__p_<part>`, each copy with the common precondition, the
    postcondition clauses marked `@<part>` (unmarked clauses go to every part) and the hooks enabled for it (`//@parts`).
    The function other code calls is a body-less stub whose contract is the common precondition and the union of all
    postcondition clauses - assembled here, mechanically, from the same lines.  Sound because every copy is the same code
    verified under the same precondition: it satisfies each group, hence their conjunction."""
    parts = blk['kv']['parts']
    src = get_source(blk['src'])
    header = src.find_fn(blk['addr'])[3]
    sig_lines = blk['sections'][0][2]
    idx_e = None
    for k, (t, lno) in enumerate(sig_lines):
        if re.match(r'\s*ensures\b', t):
            idx_e = k
            break
    if idx_e is None:
        raise ExtractError('%s: split proof of %s has no ensures' % (tmpl_rel, blk['addr']))
    req = sig_lines[:idx_e]
    et, elno = sig_lines[idx_e]
    rest = re.sub(r'\bensures\b', '       ', et, count=1)
    tail = ([(rest, elno)] if rest.strip() else []) + sig_lines[idx_e + 1:]
    groups, cur = [], []
    for (t, lno) in tail:
        cur.append((t, lno))
        if '//#' in t:
            m = PART_MARK.search(t)
            groups.append((set(m.group(1).split(',')) if m else None, cur))
            cur = []
    if cur:
        groups.append((None, cur))
    for (mk, g) in groups:
        if mk and not mk <= set(parts):
            raise ExtractError('%s:%d: unknown part %s' % (tmpl_rel, g[-1][1], mk))
        code = [re.sub(r'//.*$', '', t).rstrip() for (t, _) in g]
        code = [c for c in code if c.strip()]
        if code and not code[-1].endswith(','):
            raise ExtractError('%s:%d: a postcondition group of a split proof must end with a comma' % (tmpl_rel, g[-1][1]))
    ens_kw = ('        ensures', elno)
    parent = unit.cur_module

    def sub_blk(part):
        b = dict(blk)
        b['part'] = part
        secs, reps = [], []
        mine = [ln for (mk, g) in groups if mk is None or part in mk for ln in g]
        secs.append(('sig', None, req + [ens_kw] + mine))
        for sec, sp in list(zip(blk['sections'], blk['sec_parts']))[1:]:
            if sec[0] != 'none' and (sp is None or part in sp):
                secs.append(sec)
        for rp, sp in zip(blk['replaces'], blk['rep_parts']):
            if sp is None or part in sp:
                reps.append(rp)
        b['sections'], b['replaces'] = secs, reps
        return b
    # the parent module's own imports (its `use` lines so far), repeated in every part module
    uses = []
    for k in range(len(unit.lines) - 1, -1, -1):
        if re.match(r'\s*pub mod %s \{' % re.escape(parent), unit.lines[k]):
            break
        if re.match(r'use\s+[^;]*;\s*$', unit.lines[k]):
            uses.insert(0, unit.lines[k])
    for part in parts:
        # the part module is a SIBLING of the parent (emitted after the parent closes): `--verify-module <parent>` would include a
        # nested module, and `--verify-only-module` gives up Verus's pruning of the proof context
        saved = (unit.lines, unit.origin, unit.fns)
        unit.lines, unit.origin, unit.fns = [], [], []
        pmod = parent + '__p_' + part
        unit.emit('pub mod %s { // split proof of %s, part %s' % (pmod, blk['addr'], part), ('t', tmpl_rel, blk['line']))
        for u in uses:
            unit.emit(u, ('t', tmpl_rel, blk['line']))
        unit.emit('use super::%s::*;' % parent, ('t', tmpl_rel, blk['line']))
        unit.emit(header + ' {', ('t', tmpl_rel, blk['line']))
        unit.cur_module = pmod
        if pmod not in unit.modules:
            unit.modules.append(pmod)
        try:
            weave_fn(unit, tmpl_rel, sub_blk(part))
        finally:
            unit.cur_module = parent
        unit.emit('}', ('t', tmpl_rel, blk['line']))
        unit.emit('} // mod %s' % pmod, ('t', tmpl_rel, blk['line']))
        block = (unit.lines, unit.origin, unit.fns)
        unit.lines, unit.origin, unit.fns = saved
        unit.deferred.setdefault(parent, []).append(block)
    stub = dict(blk)
    stub['stub'] = True
    stub['attrs'] = [('#[verifier::external_body] // vx:split-proof-stub (contract = common precondition + union of the postcondition groups proved by %s)'
                      % ', '.join('%s__%s' % (blk['addr'].split('::')[-1], p) for p in parts), blk['line'])]
    stub['sections'] = [('sig', None, req + [ens_kw] + [ln for (mk, g) in groups for ln in g])]
    stub['replaces'] = [rp for rp, sp in zip(blk['replaces'], blk['rep_parts']) if sp is None]
    unit.emit(header + ' {', ('t', tmpl_rel, blk['line']))
    weave_fn(unit, tmpl_rel, stub)
    unit.emit('}', ('t', tmpl_rel, blk['line']))


def weave_item(unit, tmpl_rel, blk):
    src = get_source(blk['src'])
    start, end, first_line = src.find_item(blk['kind'], blk['name'])
    text = src.text[start:end]
    # strip attributes (derives) - Verus supplies its own
    text2 = re.sub(r'^#\[[^\]]*\]\s*$', lambda m: '', text, flags=re.M)
    if blk['kind'] == 'struct':
        text2 = re.sub(r'^(\s+)(?:pub(?:\([a-z]+\))?\s+)?(\w+\s*:)', r'\1pub \2', text2, flags=re.M)
        # tuple struct: Timestamp(u64) -> pub u64
        text2 = re.sub(r'^((?:pub(?:\([a-z]+\))?\s+)?struct\s+\w+)\((?:pub\s+)?', r'\1(pub ', text2, flags=re.M)
    text2 = re.sub(r'^(?:pub(?:\([a-z]+\))?\s+)?(struct|enum|const|trait|type)\b', r'pub \1', text2, count=1, flags=re.M)
    replaces = [(a, b) for (k, a, b) in blk['replaces']]
    text2, _ = rules.apply_local(text2, replaces, blk['name'])
    for attr in blk['attrs']:
        unit.emit(attr[0], ('t', tmpl_rel, attr[1]))
    for k, ln in enumerate(text2.split('\n')):
        unit.emit(ln, ('s', src.rel, first_line + k))


def load_template(unit, path, srcmap, seen=None):
    seen = seen if seen is not None else set()
    rel = os.path.relpath(path, VERIF)
    if path in seen:
        return
    seen.add(path)
    raw = open(path, encoding='utf-8').read().split('\n')
    i = 0
    while i < len(raw):
        ln = raw[i]
        lno = i + 1
        s = ln.strip()
        if s.startswith('//@include '):
            inc = os.path.join(os.path.dirname(path), s.split()[1])
            unit.includes.append(os.path.relpath(inc, VERIF))
            load_template(unit, inc, srcmap, seen)
            i += 1
        elif s.startswith('//@module '):
            unit.cur_module = s.split()[1]
            if unit.cur_module not in unit.modules:
                unit.modules.append(unit.cur_module)
            i += 1
        elif s.startswith('//@prologue'):
            t = s[len('//@prologue'):].strip()
            unit.prologue = (t, rel, lno) if t else None
            i += 1
        elif s.startswith('//@src '):
            m = re.match(r'//@src\s+(\w+)\s*=\s*(\S+)', s)
            srcmap[m.group(1)] = m.group(2)
            i += 1
        elif s.startswith('//@fn ') or s.startswith('//@item '):
            words = s.split()
            is_fn = words[0] == '//@fn'
            if is_fn:
                blk = dict(src=srcmap[words[1]], addr=words[2], line=lno)
                kv, flags = parse_kv(words[3:])
            else:
                blk = dict(src=srcmap[words[1]], kind=words[2], name=words[3], line=lno)
                kv, flags = parse_kv(words[4:])
            blk['kv'], blk['flags'] = kv, flags
            blk['sections'] = []
            blk['replaces'] = []
            blk['attrs'] = []
            blk['sec_parts'] = [None]
            blk['rep_parts'] = []
            cur_parts = None       # `//@parts a,b`: what follows belongs to these parts of a split proof only (`//@parts *`: to all)
            cur = ('sig', None, [])
            blk['sections'].append(cur)
            i += 1
            while True:
                if i >= len(raw):
                    raise ExtractError('%s:%d: unterminated //@fn block' % (rel, lno))
                t = raw[i]
                ts = t.strip()
                if ts == '//@end':
                    i += 1
                    break
                n_sec, n_rep = len(blk['sections']), len(blk['replaces'])
                if ts.startswith('//@parts '):
                    w = ts.split()[1]
                    cur_parts = None if w == '*' else set(w.split(','))
                    # text that follows a //@parts line continues no earlier section
                    cur = ('none', None, [])
                elif ts.startswith('//@loopend '):
                    cur = ('loopend', ts.split()[1], [])
                    blk['sections'].append(cur)
                elif ts.startswith('//@loop '):
                    cur = ('loop', ts.split()[1], [])
                    blk['sections'].append(cur)
                elif ts.startswith('//@beforeeach '):
                    cur = ('beforeeach', parse_regex_arg(ts[len('//@beforeeach '):], 'beforeeach'), [])
                    blk['sections'].append(cur)
                elif ts.startswith('//@aftereach '):
                    cur = ('aftereach', parse_regex_arg(ts[len('//@aftereach '):], 'aftereach'), [])
                    blk['sections'].append(cur)
                elif ts.startswith('//@before '):
                    cur = ('before', parse_regex_arg(ts[len('//@before '):], 'before'), [])
                    blk['sections'].append(cur)
                elif ts.startswith('//@after '):
                    cur = ('after', parse_regex_arg(ts[len('//@after '):], 'after'), [])
                    blk['sections'].append(cur)
                elif ts.startswith('//@replace ') or re.match(r'//@replace=\d+ ', ts):
                    # `//@replace=N /re/ => text`: the rule must fire exactly N times (a different number of sites
                    # is a lost anchor: exit 2, never an alarm)
                    m = re.match(r'//@replace(?:=(\d+))?\s+/(.*?)/\s*=>\s?(.*)$', ts)
                    if not m:
                        raise ExtractError('%s:%d: bad replace' % (rel, i + 1))
                    rx = m.group(2) if m.group(1) is None else (m.group(2), int(m.group(1)))
                    blk['replaces'].append(('replace', rx, m.group(3).replace('\\n', '\n')))
                elif ts.startswith('//@attr '):
                    blk['attrs'].append((ts[len('//@attr '):], i + 1))
                elif ts.startswith('//@'):
                    raise ExtractError('%s:%d: unknown directive %s' % (rel, i + 1, ts))
                else:
                    cur[2].append((t, i + 1))
                while len(blk['sec_parts']) < len(blk['sections']):
                    blk['sec_parts'].append(cur_parts)
                while len(blk['rep_parts']) < len(blk['replaces']):
                    blk['rep_parts'].append(cur_parts)
                i += 1
            if is_fn and blk['kv'].get('parts'):
                weave_split(unit, rel, blk)
            elif is_fn:
                weave_fn(unit, rel, blk)
            else:
                weave_item(unit, rel, blk)
        elif s.startswith('//@'):
            raise ExtractError('%s:%d: unknown directive %s' % (rel, lno, s))
        else:
            unit.emit(ln, ('t', rel, lno))
            cm = CLAUSE_RE.search(ln)
            if cm and '//#' in ln:
                ctags = [x for x in (cm.group(2) or '').replace(',', ' ').split() if x]
                unit.tmpl_clauses.append((len(unit.lines), cm.group(1), ctags or None, unit.cur_module))
            mm = re.match(r'\}\s*//\s*mod (\w+)\s*$', ln)
            if mm and unit.deferred.get(mm.group(1)):
                # the parent module is closed: emit the part modules of its split proofs as its siblings
                for (blines, borigin, bfns) in unit.deferred.pop(mm.group(1)):
                    base = len(unit.lines)
                    unit.lines.extend(blines)
                    unit.origin.extend(borigin)
                    for rec in bfns:
                        rec.gen_start += base
                        rec.gen_end += base
                        rec.clauses = [(gl + base, cid, ctags, kind) for (gl, cid, ctags, kind) in rec.clauses]
                        unit.fns.append(rec)
            i += 1


def build_unit(name='cfb', pinned=False, force_drop=None, force_stub=None):
    """The whole crate is one generated file (one Verus `mod` per source
    module); checks verify only the modules a property needs.
    pinned=True: the function text comes from contracts/pinned_src (the sources the contracts were written against)
    and the directives listed in force_drop {addr: keys} are left out - the differential run of DESIGN 11.10."""
    reset_sources()
    SOURCE_ROOT[0] = PINNED_ROOT if pinned else REPO
    FORCE_DROP[0] = force_drop or {}
    FORCE_STUB[0] = set(force_stub or [])
    try:
        return _build_unit(name)
    finally:
        SOURCE_ROOT[0] = REPO
        FORCE_DROP[0] = {}
        FORCE_STUB[0] = set()


def _build_unit(name):
    unit = Unit(name)
    path = os.path.join(VERIF, 'contracts', name + '.vc')
    load_template(unit, path, {})
    if any(unit.deferred.values()):
        raise ExtractError('split-proof parts of %s were never emitted (no `} // mod <name>` line closes the module)' % ', '.join(k for k, v in unit.deferred.items() if v))
    return unit


TRUST_PATTERNS = [
    ('assume', r'\bassume\s*\('),
    ('admit', r'\badmit\s*\('),
    ('external_body', r'external_body'),
    ('assume_specification', r'\bassume_specification\b'),
    ('external', r'#\[verifier::external\b'),
    ('external_trait_specification', r'external_trait_specification'),
    ('external_type_specification', r'external_type_specification'),
    ('axiom', r'\baxiom\b'),
    ('uninterp', r'\buninterp\b'),
]


def trusted_scan(unit):
    """Mechanical scan of the generated file (DESIGN.md 3.6): every assumed
    item, with the nearest following item name."""
    found = []
    st = strip_map(unit.text()).split('\n')
    for idx, ln in enumerate(st):
        for kind, rx in TRUST_PATTERNS:
            if re.search(rx, ln):
                # name = next fn/struct/trait/spec fn identifier
                name = '?'
                for k in range(idx, min(idx + 12, len(st))):
                    m = re.search(r'\b(?:fn|struct|trait|enum)\s+(\w+)', st[k])
                    if m:
                        name = m.group(1)
                        break
                    m = re.search(r'assume_specification\s*(?:<[^>]*>)?\s*\[\s*([^\]]+)\]', unit.lines[k])
                    if m:
                        name = m.group(1).strip()
                        break
                o = unit.origin[idx]
                if 'vx:split-proof-stub' in unit.lines[idx]:
                    kind = 'split_proof_stub (not an assumption: every postcondition group is proved on the real text by a renamed copy)'
                found.append('%s %s (%s:%d)' % (kind, name, o[1], o[2]))
    return sorted(set(found))
