"""Run Verus on a generated unit and turn its diagnostics into obligation
records (DESIGN.md 3.4, 3.7)."""
import json
import os
import re
import subprocess
import time

from .weave import VERIF, CLAUSE_RE

BUILD = os.path.join(VERIF, 'build')

KINDS = [
    ('postcondition', r'postcondition not satisfied'),
    ('closure_postcondition', r'unable to prove post-condition of closure'),
    ('precondition', r'precondition not satisfied'),
    ('invariant_entry', r'invariant not satisfied before loop'),
    ('invariant_step', r'invariant not satisfied at end of loop body'),
    ('invariant_break', r'loop invariant not satisfied'),
    ('assertion', r'assertion failed'),
    ('overflow', r'possible arithmetic underflow/overflow'),
    ('div_zero', r'possible division by zero'),
    ('decreases', r'decreases not satisfied|could not prove termination'),
    ('unreachable', r'unreached\(\)|unreachable'),
    ('recommends', r'recommendation not met'),
    ('bit_shift', r'possible bit shift underflow/overflow'),
]
UNDECIDED = r'Resource limit|rlimit|timed? ?out|Verus Internal Error|cancelled'


def all_spans(diag):
    """Yield (file, line, label, is_primary) for every span of a rustc JSON
    diagnostic, following macro expansions back to the call site."""
    def walk(sp, label, prim):
        yield (sp.get('file_name'), sp.get('line_start'), sp.get('line_end'), label, prim)
        exp = sp.get('expansion')
        if exp and exp.get('span'):
            yield from walk(exp['span'], label, prim)
    for sp in diag.get('spans', []):
        yield from walk(sp, sp.get('label'), sp.get('is_primary'))
    for ch in diag.get('children', []):
        for sp in ch.get('spans', []):
            yield from walk(sp, ch.get('message'), False)


def write_unit(unit, suffix=''):
    os.makedirs(BUILD, exist_ok=True)
    path = os.path.join(BUILD, unit.name + suffix + '.rs')
    tmp = path + '.%d.tmp' % os.getpid()
    with open(tmp, 'w') as f:
        f.write(unit.text())
    os.replace(tmp, path)
    return path


def run_verus_path(path, rlimit=30, multiple_errors=20, extra=None, module=None):
    cmd = ['verus', path, '--error-format=json', '--output-json', '--time',
           '--multiple-errors', str(multiple_errors), '--rlimit', str(rlimit),
           '--no-report-long-running', '--num-threads', '4']
    if module:
        only = bool(extra) and '--verify-function' in extra
        cmd += ['--verify-only-module' if only else '--verify-module', module]
    if extra:
        cmd += extra
    t0 = time.time()
    p = subprocess.run(cmd, stdout=subprocess.PIPE, stderr=subprocess.PIPE, text=True,
                       cwd=BUILD)
    wall = time.time() - t0
    res = dict(cmd=' '.join(cmd), wall_s=round(wall, 2), rc=p.returncode, diags=[],
               summary=None, raw_stderr=p.stderr, module=module)
    try:
        res['summary'] = json.loads(p.stdout) if p.stdout.strip() else None
    except Exception:
        res['summary'] = None
    for ln in p.stderr.split('\n'):
        if ln.startswith('{'):
            try:
                d = json.loads(ln)
            except Exception:
                continue
            if d.get('$message_type') == 'diagnostic':
                res['diags'].append(d)
    return res


def run_verus(unit, rlimit=30, multiple_errors=20, extra=None, suffix='', module=None):
    path = write_unit(unit, suffix)
    return run_verus_path(path, rlimit, multiple_errors, extra, module), path


def classify(unit, res, gen_path):
    """-> (failures, undecided, hard_errors, warnings)
    failure: dict(kind, fn, addr, clause, clause_tags, src, msg, rendered)"""
    gen_base = os.path.basename(gen_path)
    failures, undecided, hard = [], [], []
    fn_by_line = {}
    for f in unit.fns:
        for l in range(f.gen_start, f.gen_end + 1):
            fn_by_line[l] = f

    def clause_at(line, line_end=None):
        """clause id for a template-origin span: the last //# marker on the lines the span covers
        (a clause carries its marker on its last line)"""
        line_end = line_end or line
        best = None
        for f in unit.fns:
            if f.gen_start <= line <= f.gen_end:
                for (gl, cid, ctags, kind) in f.clauses:
                    if line <= gl <= line_end and (best is None or gl > best[0]):
                        best = (gl, cid, ctags, kind, f)
                return best
        for (gl, cid, ctags, _m) in unit.tmpl_clauses:
            if line <= gl <= line_end and (best is None or gl > best[0]):
                best = (gl, cid, ctags, 'tmpl', None)
        return best

    for d in res['diags']:
        if d.get('level') != 'error':
            continue
        msg = d.get('message', '')
        if msg.startswith('aborting due to'):
            continue
        spans = [s for s in all_spans(d) if s[0] and os.path.basename(s[0]) == gen_base]
        kind = None
        for k, rx in KINDS:
            if re.search(rx, msg):
                kind = k
                break
        rec = dict(kind=kind, msg=msg, rendered=d.get('rendered', ''), fn=None, addr=None,
                   clause=None, clause_tags=None, src=None, tmpl=None, callee_clause=None, diag=d)
        # function = the one containing the primary span
        prim = [s for s in spans if s[4]] or spans
        for s in prim:
            f = fn_by_line.get(s[1])
            if f:
                rec['fn'] = f
                rec['addr'] = f.addr
                break
        # source site and clause
        for s in spans:
            o = unit.origin[s[1] - 1] if 0 < s[1] <= len(unit.origin) else None
            if not o:
                continue
            if o[0] == 's' and rec['src'] is None and s[4]:
                rec['src'] = '%s:%d' % (o[1], o[2])
        for s in spans:
            o = unit.origin[s[1] - 1] if 0 < s[1] <= len(unit.origin) else None
            if not o:
                continue
            if o[0] == 's' and rec['src'] is None:
                rec['src'] = '%s:%d' % (o[1], o[2])
            if o[0] == 't':
                c = clause_at(s[1], s[2])
                rec['tmpl'] = rec['tmpl'] or '%s:%d' % (o[1], o[2])
                if c:
                    inside_same_fn = c[4] is not None and c[4] is rec['fn']
                    if kind == 'precondition' and not inside_same_fn or (c[4] is not None and not inside_same_fn):
                        rec['callee_clause'] = (c[1], c[2], c[4].addr if c[4] else None)
                    else:
                        rec['clause'] = c[1]
                        rec['clause_tags'] = c[2]
        if re.search(UNDECIDED, msg) or re.search(UNDECIDED, d.get('rendered', '')):
            undecided.append(rec)
        elif kind is None:
            hard.append(rec)
        else:
            failures.append(rec)
    return failures, undecided, hard


def obligation_id(unit, rec):
    addr = rec['addr'] or '<toplevel>'
    if rec['clause']:
        tail = rec['clause']
    elif rec['callee_clause']:
        cc = rec['callee_clause']
        tail = 'call:%s%s' % ((cc[2] + '#') if cc[2] else '', cc[0] or 'requires')
    else:
        tail = 'auto:%s' % rec['kind']
    site = rec['src'] or rec['tmpl'] or ''
    mod = rec['fn'].module if rec['fn'] is not None else (rec.get('module') or unit.name)
    return '%s.%s#%s@%s' % (mod, addr, tail, site)
